"""Real threads, simulated scheduling: exactly one thread holds the baton at any time;
pre-emption happens at `sys.settrace` line events inside library frames after countdowns
drawn from the run's PRNG; a thread that has to wait for a message hands the baton on.
Who runs next is always the PRNG's decision, so a (seed, code) pair is one exact execution."""
import sys
import threading


class Deadlock(Exception):
    pass


class BatonScheduler:
    def __init__(self, rng, mean_gap, max_preempt, trace_prefix, long_jump=0):
        self.rng = rng
        self.mean_gap = mean_gap            # 0 / None: no pre-emption, only voluntary yields
        self.long_jump = long_jump          # >0: some countdowns are uniform in [1, long_jump] so that
                                            # pre-emptions also land deep inside long computations
        self.max_preempt = max_preempt
        self.trace_prefix = trace_prefix
        self.events = {}                    # tid -> threading.Event
        self.state = {}                     # tid -> "ready" | "blocked" | "done"
        self.blocked_on = {}                # tid -> predicate
        self.preempts = {}
        self.switches = 0
        self.line_events = 0
        self.order = []
        self.main_evt = threading.Event()
        self.error = None
        self.trace_log = []                 # (tid) sequence of baton holders, for the digest

    # ---- called by the controlling (main) thread -------------------------------------
    def run(self, bodies, timeout=300):
        """bodies: dict tid -> callable(sched). Runs them to completion under the baton."""
        threads = {}
        for tid, body in bodies.items():
            self.events[tid] = threading.Event()
            self.state[tid] = "ready"
            self.preempts[tid] = 0
            self.order.append(tid)
            t = threading.Thread(target=self._thread_main, args=(tid, body), daemon=True)
            threads[tid] = t
        for t in threads.values():
            t.start()
        first = self._pick(None)
        if first is not None:
            self.trace_log.append(first)
            self.events[first].set()
            if not self.main_evt.wait(timeout):
                self.error = self.error or "thread schedule timed out"
        for t in threads.values():
            t.join(2)
        if self.error:
            raise RuntimeError(self.error)

    # ---- inside the worker threads -----------------------------------------------------
    def _thread_main(self, tid, body):
        self.events[tid].wait()
        self.events[tid].clear()
        self._arm(tid)
        try:
            sys.settrace(self._make_tracer(tid))
            try:
                body(self, tid)
            finally:
                sys.settrace(None)
        except BaseException as e:          # noqa
            self.error = "thread %r: %r" % (tid, e)
        self.state[tid] = "done"
        nxt = self._pick(tid)
        if nxt is None:
            self.main_evt.set()
        else:
            self.trace_log.append(nxt)
            self.events[nxt].set()

    def _arm(self, tid):
        if self.mean_gap:
            if self.long_jump and self.rng.random() < 0.25:
                self._countdown = self.rng.randrange(1, self.long_jump + 1)
            else:
                self._countdown = max(1, int(self.rng.expovariate(1.0 / self.mean_gap)))
        else:
            self._countdown = None

    def _make_tracer(self, tid):
        prefix = self.trace_prefix
        sched = self

        def local(frame, event, arg):
            if event == "line":
                sched.line_events += 1
                cd = sched._countdown
                if cd is not None:
                    cd -= 1
                    if cd <= 0:
                        if sched.preempts[tid] < sched.max_preempt:
                            sched.preempts[tid] += 1
                            sched.yield_(tid)
                        sched._arm(tid)
                    else:
                        sched._countdown = cd
            return local

        def glob(frame, event, arg):
            if event == "call" and frame.f_code.co_filename.startswith(prefix):
                return local
            return None
        return glob

    def _runnable(self):
        out = []
        for tid in self.order:
            st = self.state[tid]
            if st == "ready":
                out.append(tid)
            elif st == "blocked" and self.blocked_on[tid]():
                out.append(tid)
        return out

    def _pick(self, me):
        r = self._runnable()
        if not r:
            # nobody can make progress: release blocked threads with a "give up" signal
            blocked = [t for t in self.order if self.state[t] == "blocked"]
            if blocked:
                t = blocked[0]
                self.state[t] = "giveup"
                return t
            return None
        return r[self.rng.randrange(len(r))]

    def yield_(self, me):
        """pre-emption point: hand the baton to a PRNG-chosen runnable thread (maybe me)"""
        nxt = self._pick(me)
        if nxt is None or nxt == me:
            return
        self.switches += 1
        self.trace_log.append(nxt)
        self.events[nxt].set()
        self.events[me].wait()
        self.events[me].clear()
        self._arm(me)

    def wait_for(self, me, predicate):
        """block until predicate() holds; returns False if it can never hold (all others done/blocked)"""
        while not predicate():
            self.state[me] = "blocked"
            self.blocked_on[me] = predicate
            nxt = self._pick(me)
            if nxt is None:
                self.state[me] = "ready"
                return False
            if nxt == me:
                if self.state[me] == "giveup":
                    self.state[me] = "ready"
                    return False
                self.state[me] = "ready"
                continue
            self.switches += 1
            self.trace_log.append(nxt)
            self.events[nxt].set()
            self.events[me].wait()
            self.events[me].clear()
            if self.state[me] == "giveup":
                self.state[me] = "ready"
                return False
            self.state[me] = "ready"
            self._arm(me)
        return True
