"""Real threads, simulated scheduling: exactly one thread holds the baton at any time;
pre-emption happens at `sys.settrace` line events inside library frames after countdowns
drawn from the run's PRNG; a thread that has to wait for a message hands the baton on.
Who runs next is always the PRNG's decision, so a (seed, code) pair is one exact execution."""
import sys
import threading


class Deadlock(Exception):
    pass


# ------------------------------------------------------------------------------------------
# cooperative synchronisation primitives for the library under test
# ------------------------------------------------------------------------------------------
# The library is imported with a proxy `threading` module (see loader): whatever locks it creates
# are these.  Outside a simulated schedule they behave like the real thing; inside one, a thread
# that would block hands the baton on instead of stalling the only runnable thread.

_real_threading = threading
ACTIVE = {"sched": None}
_idents = {}                    # threading.get_ident() -> tid of the running schedule


def _me():
    s = ACTIVE["sched"]
    if s is None:
        return None, None
    return s, _idents.get(_real_threading.get_ident())


class CoopLock:
    _reentrant = False

    def __init__(self):
        self._real = _real_threading.RLock() if self._reentrant else _real_threading.Lock()
        self._held = 0
        self._owner = None

    def acquire(self, blocking=True, timeout=-1):
        s, tid = _me()
        if tid is None:
            return self._real.acquire(blocking, timeout)
        if self._reentrant and self._owner == tid:
            self._held += 1
            return True
        while self._held:
            if not blocking:
                return False
            if not s.wait_for(tid, lambda: not self._held):
                raise Deadlock("every thread of the schedule is blocked on a lock")
        self._held = 1
        self._owner = tid
        return True

    def release(self):
        s, tid = _me()
        if tid is None and not self._held:
            return self._real.release()
        self._held -= 1
        if self._held <= 0:
            self._held = 0
            self._owner = None

    def locked(self):
        return bool(self._held) or (not self._reentrant and self._real.locked())

    def __enter__(self):
        self.acquire()
        return self

    def __exit__(self, *a):
        self.release()
        return False


class CoopRLock(CoopLock):
    _reentrant = True


def proxy_threading_module():
    """a stand-in for the `threading` module handed to the library at import time"""
    import types
    m = types.ModuleType("threading")
    m.__dict__.update({k: v for k, v in _real_threading.__dict__.items() if not k.startswith("__")})
    m.Lock = CoopLock
    m.RLock = CoopRLock
    return m


class BatonScheduler:
    def __init__(self, rng, mean_gap, max_preempt, trace_prefix, long_jump=0, record_sites=False,
                 targets=None, run_long=0):
        self.rng = rng
        self.mean_gap = mean_gap            # 0 / None: no pre-emption, only voluntary yields
        self.long_jump = long_jump          # >0: some countdowns are uniform in [1, long_jump] so that
                                            # pre-emptions also land deep inside long computations
        self.max_preempt = max_preempt
        self.trace_prefix = trace_prefix
        self.events = {}                    # tid -> threading.Event
        self.state = {}                     # tid -> "ready" | "blocked" | "done"
        self.blocked_on = {}                # tid -> predicate
        self.preempts = {}
        self.switches = 0
        self.line_events = 0
        self.order = []
        self.main_evt = threading.Event()
        self.error = None
        self.trace_log = []                 # (tid) sequence of baton holders, for the digest
        # site-targeted pre-emption: a "site" is a source line of the library (code object, line
        # number); targets[tid] = {(site, k)}: pre-empt thread tid at the k-th time it reaches
        # that line.  Sampling uniformly over SOURCE LINES instead of over executed line events
        # puts as many pre-emptions into a three-line window of a ladder that runs 30 000 line
        # events as into straight-line code.
        self.record_sites = record_sites
        self.sites = {}                     # tid -> {site: hits}   (when recording)
        self.targets = targets or {}
        self.run_long = run_long            # after a targeted pre-emption the next thread runs this long
        self.site_hits = 0
        self._force_countdown = None

    # ---- called by the controlling (main) thread -------------------------------------
    def run(self, bodies, timeout=300):
        """bodies: dict tid -> callable(sched). Runs them to completion under the baton."""
        threads = {}
        for tid, body in bodies.items():
            self.events[tid] = threading.Event()
            self.state[tid] = "ready"
            self.preempts[tid] = 0
            self.order.append(tid)
            t = threading.Thread(target=self._thread_main, args=(tid, body), daemon=True)
            threads[tid] = t
        ACTIVE["sched"] = self
        _idents.clear()
        for t in threads.values():
            t.start()
        first = self._pick(None)
        if first is not None:
            self.trace_log.append(first)
            self.events[first].set()
            if not self.main_evt.wait(timeout):
                self.error = self.error or "thread schedule timed out"
        for t in threads.values():
            t.join(2)
        ACTIVE["sched"] = None
        if self.error:
            raise RuntimeError(self.error)

    # ---- inside the worker threads -----------------------------------------------------
    def _thread_main(self, tid, body):
        _idents[threading.get_ident()] = tid
        self.events[tid].wait()
        self.events[tid].clear()
        self._arm(tid)
        try:
            sys.settrace(self._make_tracer(tid))
            try:
                body(self, tid)
            finally:
                sys.settrace(None)
        except BaseException as e:          # noqa
            self.error = "thread %r: %r" % (tid, e)
        self.state[tid] = "done"
        nxt = self._pick(tid)
        if nxt is None:
            self.main_evt.set()
        else:
            self.trace_log.append(nxt)
            self.events[nxt].set()

    def _arm(self, tid):
        fc = self._force_countdown
        if fc:
            # the thread that takes over after a targeted pre-emption runs undisturbed for a while
            self._countdown = fc
            self._force_countdown = None
            return
        if self.mean_gap:
            if self.long_jump and self.rng.random() < 0.25:
                self._countdown = self.rng.randrange(1, self.long_jump + 1)
            else:
                self._countdown = max(1, int(self.rng.expovariate(1.0 / self.mean_gap)))
        else:
            self._countdown = None

    def _make_tracer(self, tid):
        prefix = self.trace_prefix
        sched = self

        record = self.record_sites
        mysites = self.sites.setdefault(tid, {}) if (record or tid in self.targets) else None
        mytargets = self.targets.get(tid)

        def local(frame, event, arg):
            if event == "line":
                sched.line_events += 1
                if mysites is not None:
                    site = (frame.f_code.co_filename, frame.f_lineno)
                    c = mysites.get(site, 0) + 1
                    mysites[site] = c
                    if mytargets is not None and (site, c) in mytargets:
                        sched.site_hits += 1
                        sched.preempts[tid] += 1
                        sched.yield_(tid, long_for_next=True)
                        return local
                cd = sched._countdown
                if cd is not None:
                    cd -= 1
                    if cd <= 0:
                        if sched.preempts[tid] < sched.max_preempt:
                            sched.preempts[tid] += 1
                            sched.yield_(tid)
                        sched._arm(tid)
                    else:
                        sched._countdown = cd
            return local

        def glob(frame, event, arg):
            if event == "call" and frame.f_code.co_filename.startswith(prefix):
                return local
            return None
        return glob

    def _runnable(self):
        out = []
        for tid in self.order:
            st = self.state[tid]
            if st == "ready":
                out.append(tid)
            elif st == "blocked" and self.blocked_on[tid]():
                out.append(tid)
        return out

    def _pick(self, me):
        r = self._runnable()
        if not r:
            # nobody can make progress: release blocked threads with a "give up" signal
            blocked = [t for t in self.order if self.state[t] == "blocked"]
            if blocked:
                t = blocked[0]
                self.state[t] = "giveup"
                return t
            return None
        return r[self.rng.randrange(len(r))]

    def yield_(self, me, long_for_next=False):
        """pre-emption point: hand the baton to a PRNG-chosen runnable thread (maybe me)"""
        if long_for_next:
            others = [t for t in self._runnable() if t != me]
            nxt = others[self.rng.randrange(len(others))] if others else None
        else:
            nxt = self._pick(me)
        if nxt is None or nxt == me:
            return
        self.switches += 1
        self.trace_log.append(nxt)
        if long_for_next and self.run_long:
            self._force_countdown = self.run_long
        self.events[nxt].set()
        self.events[me].wait()
        self.events[me].clear()
        self._arm(me)

    def wait_for(self, me, predicate):
        """block until predicate() holds; returns False if it can never hold (all others done/blocked)"""
        while not predicate():
            self.state[me] = "blocked"
            self.blocked_on[me] = predicate
            nxt = self._pick(me)
            if nxt is None:
                self.state[me] = "ready"
                return False
            if nxt == me:
                if self.state[me] == "giveup":
                    self.state[me] = "ready"
                    return False
                self.state[me] = "ready"
                continue
            self.switches += 1
            self.trace_log.append(nxt)
            self.events[nxt].set()
            self.events[me].wait()
            self.events[me].clear()
            if self.state[me] == "giveup":
                self.state[me] = "ready"
                return False
            self.state[me] = "ready"
            self._arm(me)
        return True
