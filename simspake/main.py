"""entry point (run as a script, never with -m, so no module is loaded twice)"""
import os
import sys

ROOT = os.path.dirname(os.path.dirname(os.path.abspath(__file__)))
sys.path.insert(0, ROOT)
sys.dont_write_bytecode = True

if os.environ.get("PYTHONHASHSEED") is None and "--no-reexec" not in sys.argv:
    env = dict(os.environ)
    env["PYTHONHASHSEED"] = "0"
    os.execve(sys.executable, [sys.executable] + sys.argv, env)

import faulthandler  # noqa
faulthandler.enable()


def main(argv):
    from simspake import runner
    if not argv:
        print("usage: check <C..|selftest|setup> [--tier quick|thorough] [--replay F]")
        return 2
    cmd = argv[0]
    args = argv[1:]
    tier = os.environ.get("VERIF_TIER", "quick")
    replay = None
    workers = None
    runs = None
    i = 0
    while i < len(args):
        if args[i] == "--tier":
            tier = args[i + 1]; i += 2
        elif args[i] == "--replay":
            replay = args[i + 1]; i += 2
        elif args[i] == "--workers":
            workers = int(args[i + 1]); i += 2
        elif args[i] == "--runs":
            runs = int(args[i + 1]); i += 2
        else:
            i += 1
    seed = int(os.environ.get("VERIF_SEED", "1") or "1")
    if cmd == "replay-verify":
        pid, hit, dig, want = runner.replay_file(args[0], quiet=True)
        print("REPLAY-RESULT %s %s" % ("reproduced" if hit else "clean", dig))
        return 0
    if cmd == "setup":
        from simspake import selfcheck
        err = selfcheck.model_vs_golden()
        if err:
            print("HARNESS-ERROR model/golden mismatch: %s" % err)
            return 2
        print("setup ok: reference model reproduces the published vectors and frozen constants")
        return 0
    if cmd == "selftest":
        from simspake import selftest
        return selftest.main(args)
    if cmd not in runner.PROPS:
        print("unknown property %r (claimed: %s)" % (cmd, " ".join(runner.PROPS)))
        return 2
    if replay:
        pid, hit, dig, want = runner.replay_file(replay)
        if pid != cmd:
            print("replay file is for %s" % pid)
            return 2
        if hit:
            known = runner.load_known()
            k = runner.match_known(hit[0]["sig"], known)
            if k:
                print("KNOWN-FINDING: property=%s %s" % (pid, k["what"]))
                return 0
            print("VIOLATION property=%s replay=%s" % (pid, replay))
            print("  " + hit[0]["msg"])
            return 1
        print("replay did not violate %s on this tree" % pid)
        return 0
    return runner.run_batch(cmd, tier, seed, workers=workers, runs=runs)


if __name__ == "__main__":
    try:
        rc = main(sys.argv[1:])
    except SystemExit:
        raise
    except BaseException:
        import traceback
        traceback.print_exc()
        print("HARNESS-ERROR uncaught exception")
        rc = 2
    sys.exit(rc)
