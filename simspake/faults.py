"""Symbolic in-flight faults.  A fault is a small JSON object; it is resolved against
the bytes actually in flight in this run, so a scenario stays meaningful while it is
shrunk and when the code under test changes.

apply(fault, msg, ctx) -> (new_bytes, applied)
   msg      the full message as sent: side byte || body
   ctx.g    model group of the receiver's parameter set
   ctx.mp   model parameter set of the receiver
   ctx.dst_out   the receiver's own outbound message (or None)
   ctx.outs      outbound messages of all nodes (None where not started)
`applied` is False when the fault does not make sense here (then msg is returned
unchanged and the delivery counts as honest)."""
import hashlib

NETWORK_KINDS = [
    "bitflip", "truncate", "extend", "pad_leading_zero", "strip_leading", "side", "strip_side",
    "substitute", "noncanon", "torsion_shift", "small_order", "off_curve", "field_overflow",
    "non_member", "reflect", "replace", "rand", "empty", "textform",
]


class Ctx:
    def __init__(self, g, mp, dst_out, outs):
        self.g, self.mp, self.dst_out, self.outs = g, mp, dst_out, outs


def _rand_bytes(seed, n):
    out = b""
    c = 0
    while len(out) < n:
        out += hashlib.sha256(b"fault|%d|%d" % (seed, c)).digest()
        c += 1
    return out[:n]


def _elem_bytes(spec, ctx):
    g, mp = ctx.g, ctx.mp
    what = spec.get("elem", "identity")
    if what == "identity":
        return g.enc(g.identity)
    if what == "base":
        return g.enc(g.base)
    if what in ("M", "N", "S"):
        return g.enc(getattr(mp, what))
    if what == "kG":
        return g.enc(g.mul(g.base, int(spec.get("k", 2))))
    if what == "node":
        o = ctx.outs[spec.get("k", 0) % len(ctx.outs)]
        return None if o is None else o[1:]
    return None


def apply(fault, msg, ctx):
    if not fault:
        return msg, False
    kind = fault.get("kind")
    g = ctx.g
    side, body = msg[:1], msg[1:]
    new = None
    if kind == "bitflip":
        if len(msg) == 0:
            return msg, False
        i = fault.get("i", 0) % (8 * len(msg))
        b = bytearray(msg)
        b[i // 8] ^= 1 << (i % 8)
        new = bytes(b)
    elif kind == "truncate":
        n = fault.get("n", 0) % max(1, len(msg))       # strictly shorter
        new = msg[:n]
    elif kind == "empty":
        new = b""
    elif kind == "extend":
        w = fault.get("with", "zero")
        n = fault.get("n", 0)
        if w == "zero":
            ext = b"\x00" * (n or 1)
        elif w == "ff":
            ext = b"\xff" * (n or 1)
        elif w == "rand":
            ext = _rand_bytes(fault.get("seed", 0), n or 1)
        elif w == "framing":
            # what a line- or record-oriented transport / a text editor / a C string leaves behind
            ext = FRAMING_TAILS[fault.get("tail", 0) % len(FRAMING_TAILS)]
        elif w == "dup":
            ext = body
        elif w == "dst_body":
            ext = ctx.dst_out[1:] if ctx.dst_out else b""
        elif w == "node":
            o = ctx.outs[fault.get("k", 0) % len(ctx.outs)]
            ext = o[1:] if o else b""
        else:
            ext = b""
        if w in ("dup", "dst_body", "node"):
            if n:
                ext = ext[:n]
            ext = ext * max(1, fault.get("times", 1))
        if not ext:
            return msg, False
        new = msg + ext
    elif kind == "textform":
        # the message went through a text transport / was pasted as text: hex or base64 of the
        # element, or the bytes read as latin-1 and written as UTF-8
        import base64
        how = fault.get("how", "hex")
        if how == "hex":
            new = side + body.hex().encode()
        elif how == "HEX":
            new = side + body.hex().upper().encode()
        elif how == "base64":
            new = side + base64.b64encode(body)
        elif how == "utf8":
            new = side + body.decode("latin-1").encode("utf-8")
        elif how == "utf8_whole":
            new = msg.decode("latin-1").encode("utf-8")
        else:
            new = (side + body).hex().encode()
    elif kind == "pad_leading_zero":
        new = side + b"\x00" + body
    elif kind == "strip_leading":
        if len(body) == 0:
            return msg, False
        new = side + body[1:]
    elif kind == "side":
        new = bytes([fault.get("v", 0) % 256]) + body
    elif kind == "strip_side":
        new = body
    elif kind == "substitute":
        eb = _elem_bytes(fault, ctx)
        if eb is None:
            return msg, False
        new = side + eb
    elif kind == "noncanon":
        new = _noncanon(fault, side, body, g)
    elif kind == "torsion_shift":
        if g.kind != "ed":
            return msg, False
        try:
            P = g.dec_strict(body)
        except Exception:
            return msg, False
        tors = g.torsion_points()
        T = tors[1 + fault.get("t", 0) % 7]
        new = side + g.enc(g.add(P, T))
    elif kind == "small_order":
        if g.kind == "ed":
            tors = g.torsion_points()
            new = side + g.enc(tors[fault.get("t", 0) % 8])
        else:
            # elements of small order in Zp*: 1 and p-1
            v = [1, g.p - 1][fault.get("t", 0) % 2]
            new = side + g.enc(v)
    elif kind == "off_curve":
        if g.kind != "ed":
            return msg, False
        y0 = int.from_bytes(body[:32].ljust(32, b"\0"), "little") & ((1 << 255) - 1)
        y0 %= g.Q
        for k in range(1, 2000):
            y = (y0 + k) % g.Q
            cand = y.to_bytes(32, "little")
            try:
                g.decompress(cand)
            except Exception:
                new = side + cand
                break
    elif kind == "field_overflow":
        v = fault.get("v", 0)
        if g.kind == "ed":
            top = (1 << 255) - g.Q
            y = g.Q + (v % top if top > 0 else 0)
            sign = (v >> 8) & 1
            new = side + (y | (sign << 255)).to_bytes(32, "little")
        else:
            width = g.elem_size
            cands = [0, g.p, g.p + 1, (1 << (8 * width)) - 1, g.p + g.base]
            c = cands[v % len(cands)]
            if c >= 1 << (8 * width):
                c = (1 << (8 * width)) - 1
            new = side + c.to_bytes(width, "big")
    elif kind == "non_member":
        if g.kind == "ed":
            # a point of order 8L / 4L / 2L: subgroup point + torsion
            tors = g.torsion_points()
            P = g.mul(g.base, 1 + fault.get("k", 0) % (g.L - 1))
            new = side + g.enc(g.add(P, tors[1 + fault.get("t", 0) % 7]))
        else:
            h0 = 2 + fault.get("k", 0) % max(1, g.p - 3)
            new = None
            for h in range(h0, h0 + 500):
                h %= g.p
                if h > 1 and pow(h, g.q, g.p) != 1:
                    new = side + g.enc(h)
                    break
            if new is None:
                return msg, False
    elif kind == "reflect":
        if not ctx.dst_out:
            return msg, False
        label = fault.get("label")
        lab = ctx.dst_out[:1] if label is None else bytes([label % 256])
        new = lab + ctx.dst_out[1:]
        return new, True            # reflection is an attack even if bytes equal msg
    elif kind == "replace":
        o = ctx.outs[fault.get("k", 0) % len(ctx.outs)]
        if o is None:
            return msg, False
        new = o
    elif kind == "rand":
        n = fault.get("n", len(body))
        new = (side if fault.get("keep_side", True) else b"") + _rand_bytes(fault.get("seed", 0), n)
    else:
        raise ValueError("unknown fault kind %r" % (kind,))
    if new is None or new == msg:
        return msg, False
    return new, True


def _noncanon(fault, side, body, g):
    v = fault.get("variant", 0)
    if g.kind == "ed":
        if len(body) != 32:
            return None
        raw = int.from_bytes(body, "little")
        sign, y = raw >> 255, raw & ((1 << 255) - 1)
        if v % 3 == 0:
            # y -> y + Q when it still fits 255 bits
            if y + g.Q < (1 << 255):
                return side + ((y + g.Q) | (sign << 255)).to_bytes(32, "little")
            return None
        if v % 3 == 1:
            # flip the sign bit: a different point unless x == 0 (then: non-canonical)
            return side + (y | ((1 - sign) << 255)).to_bytes(32, "little")
        # identity aliases
        al = [(1, 1), (g.Q + 1, 0), (g.Q + 1, 1)]
        yy, ss = al[(v // 3) % 3]
        if yy >= (1 << 255):
            return None
        return side + (yy | (ss << 255)).to_bytes(32, "little")
    else:
        if len(body) != g.elem_size:
            return None
        i = int.from_bytes(body, "big")
        if i + g.p < (1 << (8 * g.elem_size)):
            return side + (i + g.p).to_bytes(g.elem_size, "big")
        return None


FRAMING_TAILS = [b"\n", b"\r\n", b"\r", b" ", b"\t", b"\x00", b"\n\n", b"=", b"==", b";", b",", b'"', b"\x1a", b"\x04",
                 b"\r\n\r\n", b"\x0a\x00"]


def gen_fault(rng, nnodes=2, elem_size=32):
    """draw one symbolic network fault"""
    kind = rng.choice(NETWORK_KINDS)
    f = {"kind": kind}
    if kind == "bitflip":
        f["i"] = rng.randrange(8 * (elem_size + 1))
    elif kind == "truncate":
        f["n"] = rng.choice([0, 1, 2, rng.randrange(elem_size + 1), elem_size, elem_size - 1, 5, 6])
    elif kind == "extend":
        f["with"] = rng.choice(["zero", "ff", "rand", "dup", "dst_body", "node", "framing"])
        f["tail"] = rng.randrange(len(FRAMING_TAILS))
        f["n"] = rng.choice([0, 0, 1, 2, elem_size, rng.randrange(1, 2 * elem_size)])
        f["seed"] = rng.randrange(1 << 16)
        f["k"] = rng.randrange(nnodes)
        if rng.random() < 0.2:
            f["times"] = rng.randrange(1, 4)
    elif kind == "side":
        f["v"] = rng.choice([0x41, 0x42, 0x53, 0x41, 0x42, 0x53, 0x61, 0x62, 0x73, 0x00, 0xff, 0x43,
                             rng.randrange(256), rng.randrange(256)])
    elif kind == "substitute":
        f["elem"] = rng.choice(["identity", "base", "M", "N", "S", "kG", "node"])
        f["k"] = rng.randrange(0, 50)
    elif kind == "noncanon":
        f["variant"] = rng.randrange(9)
    elif kind in ("torsion_shift", "small_order"):
        f["t"] = rng.randrange(8)
    elif kind == "field_overflow":
        f["v"] = rng.randrange(1 << 12)
    elif kind == "non_member":
        f["k"] = rng.randrange(1 << 16)
        f["t"] = rng.randrange(7)
    elif kind == "reflect":
        f["label"] = rng.choice([None, None, 0x41, 0x42, 0x53])
    elif kind == "replace":
        f["k"] = rng.randrange(nnodes)
    elif kind == "rand":
        f["n"] = rng.choice([elem_size, elem_size, rng.randrange(0, 2 * elem_size + 3)])
        f["seed"] = rng.randrange(1 << 30)
    elif kind == "textform":
        f["how"] = rng.choice(["hex", "HEX", "base64", "utf8", "utf8_whole", "hex_whole"])
    return f
