"""./check selftest [determinism|sensitivity|all] [--n N]

determinism  the first N run indices of every property are executed in fresh interpreters
             under (PYTHONHASHSEED=0, 16 workers), (PYTHONHASHSEED=4242, 3 workers) and
             (PYTHONHASHSEED=977, 1 worker, second VERIF_SEED); per-run event-log digests
             must be identical for the same seed.
sensitivity  tools/mutants.py run : every seeded defect is caught by the checks named for it,
             every behaviour-preserving refactor leaves all checks at exit 0."""
import os
import re
import subprocess
import sys
import time

ROOT = os.path.dirname(os.path.dirname(os.path.abspath(__file__)))
PROPS = ["C01", "C02", "C03", "C05", "C06", "C07", "C08", "C09", "C10", "C11", "C16"]
N_DEFAULT = {"C11": 120, "C16": 120, "C09": 200}


def one(pid, n, hashseed, workers, seed):
    env = dict(os.environ, PYTHONHASHSEED=str(hashseed), VERIF_NO_EVIDENCE="1", VERIF_SEED=str(seed))
    cmd = ["/venv/bin/python", "-B", os.path.join(ROOT, "simspake", "main.py"), pid, "--runs", str(n),
           "--workers", str(workers)]
    r = subprocess.run(cmd, env=env, capture_output=True, text=True, timeout=3000)
    m = re.search(r"digest=([0-9a-f]+)", r.stdout)
    return r.returncode, (m.group(1) if m else None), r.stdout[-400:]


def determinism(n=None, props=None):
    bad = 0
    for pid in props or PROPS:
        k = n or N_DEFAULT.get(pid, 300)
        t = time.time()
        a = one(pid, k, 0, 16, 7)
        b = one(pid, k, 4242, 3, 7)
        c = one(pid, k, 977, 16, 7)
        d = one(pid, k, 0, 16, 8)
        same = a[1] is not None and a[1] == b[1] == c[1]
        differs = d[1] != a[1]
        ok = same and differs and a[0] in (0, 1) and a[0] == b[0] == c[0]
        print("determinism %s n=%d: %s  (hashseed0/16w=%s hashseed4242/3w=%s hashseed977/16w=%s; other seed=%s) %.0fs"
              % (pid, k, "ok" if ok else "FAILED", a[1], b[1], c[1], d[1], time.time() - t))
        if not ok:
            bad += 1
            print(a[2], b[2])
        sys.stdout.flush()
    return bad


def main(args):
    what = args[0] if args else "all"
    n = None
    props = None
    if "--n" in args:
        n = int(args[args.index("--n") + 1])
    if "--props" in args:
        props = args[args.index("--props") + 1].split(",")
    rc = 0
    if what in ("determinism", "all"):
        if determinism(n, props):
            rc = 2
    if what in ("sensitivity", "all"):
        r = subprocess.run(["/venv/bin/python", os.path.join(ROOT, "tools", "mutants.py"), "run"], cwd=ROOT)
        if r.returncode:
            rc = 2
    print("selftest %s" % ("ok" if rc == 0 else "FAILED"))
    return rc
