"""Swarm configuration: every run draws its own group, flavour, passwords, identities,
parameter seeds, entropy modes and schedule."""
import json
import os

from . import worlds

_BIG = None


def big_groups():
    global _BIG
    if _BIG is None:
        p = os.path.join(os.path.dirname(os.path.dirname(os.path.abspath(__file__))), "golden", "intgroups.json")
        with open(p) as f:
            _BIG = [{k: v for k, v in g.items() if k != "note"} for g in json.load(f)]
    return _BIG


GROUP_MIX = [("ed25519", 28), ("i1024", 18), ("i2048", 6), ("i3072", 3),
             ("small", 25), ("medium", 8), ("toyed", 12)]


def pick_weighted(rng, table):
    tot = sum(w for _, w in table)
    r = rng.randrange(tot)
    for k, w in table:
        if r < w:
            return k
        r -= w
    return table[-1][0]


def gen_group(rng, mix=None, allow_toy=True):
    kind = pick_weighted(rng, mix or GROUP_MIX)
    if kind == "toyed" and not allow_toy:
        kind = "small"
    if kind in ("ed25519", "i1024", "i2048", "i3072"):
        return {"kind": kind}
    if kind == "small":
        return worlds.gen_int_group(rng, rng.choice([1, 2, 3, 3, 4, 5, 6, 7, 8, 8, 9, 10, 12, 15, 16, 16, 17,
                                                     23, 24, 25, 31, 32, 33]))
    if kind == "medium":
        return dict(rng.choice(big_groups()))
    Q, d, L = rng.choice(worlds.TOY_CURVES)
    return {"kind": "toyed", "Q": Q, "d": d, "L": L}


def is_negligible(gspec):
    """True when accidental coincidences (equal scalars, vanishing blinding, colliding
    seeds) are cryptographically negligible in this group"""
    k = gspec["kind"]
    if k in ("ed25519", "i1024", "i2048", "i3072"):
        return True
    if k == "int":
        return int(gspec["q"]).bit_length() >= 120
    return False


def gen_bytes(rng, kind=None):
    kind = kind or rng.choice(["empty", "one", "short", "short", "ascii", "long", "nul", "nonascii", "block",
                               "exactlen", "textual", "pattern", "exactlen", "textual", "pattern", "huge"])
    if kind == "huge":
        # certificates / key files used as identities, pass-phrases pasted from files
        n = rng.choice([1354, 2048, 4096, 5000, 9000])
        return (b"-----BEGIN CERTIFICATE-----\n" + bytes(rng.choice(b"ABCDEFGHIJKLMNOPabcdefghijklmnop0123456789+/")
                                                        for _ in range(n)) + b"\n-----END CERTIFICATE-----\n")
    if kind == "exactlen":
        # lengths around hash-block / padding / typical buffer boundaries
        n = rng.choice([15, 16, 17, 31, 32, 33, 55, 56, 57, 63, 64, 65, 119, 127, 128, 129, 255, 256, 257, 1000])
        fill = rng.choice(["rand", "rand", "same", "ascii"])
        if fill == "same":
            return bytes([rng.randrange(256)]) * n
        if fill == "ascii":
            return bytes(rng.choice(b"abcdefghijklmnopqrstuvwxyz0123456789") for _ in range(n))
        return bytes(rng.randrange(256) for _ in range(n))
    if kind == "textual":
        return rng.choice([b"pass word", b"password\n", b"password\r\n", b" password", b"\tpw", b'pw"quote', b"pw\\back",
                           b"{\"a\":1}", b"deadbeef", b"DEADBEEF", b"0x1f", b"00", b"0", b"null", b"true", b"-1",
                           "na\u00efve".encode(), "\u00fcber".encode(), "\U0001f600".encode(), "e\u0301".encode(),
                           "\u00e9".encode(), b"A", b"B", b"S", b"M", b"N", b"symmetric", b"SPAKE2 pw", b"idA", b"%s",
                           b"a" * 40, b"../x", b"pw;--", b"\x7f", b"\xc3\x28", b"\xef\xbb\xbfpw"])
    if kind == "pattern":
        n = rng.choice([2, 3, 4, 8, 20, 32])
        b = bytearray(rng.randrange(256) for _ in range(n))
        c = rng.randrange(5)
        if c == 0:
            b[rng.randrange(n)] = 0
        elif c == 1:
            b[-1] = 0xff
        elif c == 2:
            b[0] = 0
        elif c == 3:
            b[-1] = 0
        else:
            b[0] = 0x80
        return bytes(b)
    if kind == "empty":
        return b""
    if kind == "one":
        return bytes([rng.randrange(256)])
    if kind == "short":
        return bytes(rng.randrange(256) for _ in range(rng.randrange(2, 6)))
    if kind == "ascii":
        return rng.choice([b"password", b"pw", b"alice", b"bob", b"correct horse", b"a", b"ab", b"abc"])
    if kind == "long":
        return bytes(rng.randrange(256) for _ in range(rng.choice([65, 100, 129, 300])))
    if kind == "nul":
        return rng.choice([b"\x00", b"\x00\x00", b"a\x00b", b"\x00pw", b"pw\x00"])
    if kind == "nonascii":
        return rng.choice([b"\xff\xfe", "pässwörd".encode(), b"\x80", b"\x00\x01\xfe\xff", "密码".encode()])
    return bytes(rng.randrange(256) for _ in range(64))


def near_family(rng, n=2):
    """n different long strings with the same length, the same first and last 64+ bytes and a
    different middle (certificates of one CA, keys of one format)"""
    total = rng.choice([600, 1354, 2048, 4096])
    head = b"-----BEGIN CERTIFICATE-----\nMIIDdzCCAl+gAwIBAgIEAgAAuTANBgkqhkiG9w0BAQUFADBaMQswCQYDVQQGEwJJ\n"
    tail = b"\nR9I4LtD+gdwyah617jzV/OeBHRnDJELqYzmp\n-----END CERTIFICATE-----\n" + b"=" * 10
    mid = total - len(head) - len(tail)
    out = []
    while len(out) < n:
        m = bytes(rng.choice(b"ABCDEFGHIJKLMNOPQRSTUVWXYZabcdefghijklmnopqrstuvwxyz0123456789+/") for _ in range(mid))
        v = head + m + tail
        if v not in out:
            out.append(v)
    return out


def gen_ids(rng):
    """identity pair (idA, idB) drawn from the classes that matter for transcripts"""
    c = rng.randrange(9)
    if c == 8:
        v = gen_bytes(rng, rng.choice(["textual", "exactlen", "pattern"]))
        return rng.choice([(v, v), (v, b""), (b"", v), (v, v[::-1]), (v, v + v)])
    if c == 0:
        return b"", b""
    if c == 1:
        v = gen_bytes(rng)
        return v, v
    if c == 2:
        return b"ab", b"c"
    if c == 3:
        return b"a", b"bc"
    if c == 4:
        v = gen_bytes(rng, "short")
        return v, v + b"x"
    if c == 5:
        return gen_bytes(rng, "long"), gen_bytes(rng)
    return gen_bytes(rng), gen_bytes(rng)


def gen_seeds(rng, pspec):
    """custom M/N/S seeds for some runs"""
    if rng.random() < 0.35:
        for k in ("M", "N", "S"):
            if rng.random() < 0.6:
                pspec[k] = gen_bytes(rng, rng.choice(["one", "short", "ascii", "empty"])).hex()
    return pspec


def gen_entropy(rng, gspec, edge_bias=0.35):
    r = rng.random()
    seed = rng.randrange(1 << 48)
    if r > edge_bias:
        return {"mode": "uniform", "seed": seed}
    q = order_of(gspec)
    m = rng.choice(["zeros", "target", "target", "target", "boundary", "redraws", "counter", "ones"])
    if m == "target":
        nb = max(1, (q.bit_length() + 7) // 8)
        r = rng.randrange(q)
        shaped = [
            (r >> 8) << 8,                                  # low byte 0x00
            ((r >> 8) << 8) | 0xff,                         # low byte 0xff
            r & ~(0xff << (8 * rng.randrange(nb))),         # a zero byte somewhere inside
            1 << (8 * rng.randrange(nb)),                   # 0x..0100..00: many leading zero bytes, one set bit
            (1 << (8 * rng.randrange(1, nb + 1))) - 1,      # 0x00..00ffff
            r >> (8 * rng.randrange(nb)),                   # k leading zero bytes
            1 << (q.bit_length() - 1),                      # top bit only
            255, 256, 257,
        ]
        v = rng.choice([0, 1, q - 1, q - 1, 2, (q - 1) // 2, (q + 1) // 2, rng.randrange(q)] +
                       [x % q for x in shaped])
        return {"mode": "target", "v": str(v), "seed": seed}
    if m == "boundary":
        return {"mode": "boundary", "q": str(q), "seed": seed}
    if m in ("redraws", "ones"):
        return {"mode": "redraws", "k": rng.randrange(1, 5), "seed": seed}
    return {"mode": m, "seed": seed}


def order_of(gspec):
    return worlds.model_group(gspec).q


def usable_pspec(pspec):
    """In a tiny field the hash-to-element step can land on 0 (probability 1/p), which the
    library refuses by assertion when the parameter set is built or fingerprinted.  Such a
    (group, seed) combination is not a usable parameter set; the generator avoids it."""
    g = worlds.model_group(pspec["group"])
    if g.kind != "int" or g.p.bit_length() > 40:
        return True
    s = worlds.seeds_of(pspec)
    return all(g.arbitrary(x) != 0 for x in (s["M"], s["N"], s["S"], b""))


def gen_pspec(rng, mix=None, allow_toy=True):
    while True:
        pspec = gen_seeds(rng, {"group": gen_group(rng, mix, allow_toy)})
        if usable_pspec(pspec):
            return pspec


def gen_base_config(rng, flavour=None, mix=None, allow_toy=True, entropy_edge=0.35):
    """two honest matching nodes"""
    pspec = gen_pspec(rng, mix, allow_toy)
    gspec = pspec["group"]
    flavour = flavour or rng.choice(["AB", "AB", "S"])
    pw = gen_bytes(rng)
    ida, idb = gen_ids(rng)
    ids = gen_bytes(rng)
    if rng.random() < 0.06:
        # an identity that equals the password, or all three equal
        c = rng.randrange(4)
        if c == 0:
            ida = pw
        elif c == 1:
            idb = pw
        elif c == 2:
            ida = idb = pw
        ids = pw
    nodes = []
    for cls in (("A", "B") if flavour == "AB" else ("S", "S")):
        nd = {"cls": cls, "pw": pw.hex(), "pset": 0, "entropy": gen_entropy(rng, gspec, entropy_edge)}
        if cls == "S":
            nd["idS"] = ids.hex()
        else:
            nd["idA"], nd["idB"] = ida.hex(), idb.hex()
        nodes.append(nd)
    if flavour == "AB" and rng.random() < 0.5:
        nodes.reverse()
    return {"psets": [pspec], "nodes": nodes}


CHEAP_TO_REIMPORT = ("ed25519", "i1024", "int", "toyed")


def gen_lifecycle(rng, n, max_cycles=3, p_cycle=0.5, reencode=False, reboot_host=None):
    """steps of one node between boot and the point where it is ready to receive:
    boot, start, then 0..max persist/crash/recover cycles"""
    steps = [{"op": "boot", "n": n}, {"op": "start", "n": n}]
    k = 0
    while k < max_cycles and rng.random() < p_cycle:
        k += 1
        p = {"op": "persist", "n": n}
        if reencode and rng.random() < 0.3:
            p["reencode"] = rng.randrange(1 << 16)
        steps.append(p)
        if rng.random() < 0.15:
            steps.append({"op": "persist", "n": n})
        if reboot_host is not None:
            steps.append({"op": "reboot", "host": reboot_host})
        else:
            steps.append({"op": "crash", "n": n})
        steps.append({"op": "recover", "n": n})
    return steps


def gen_interrupt(rng):
    """where inside a library call the simulator raises (sim.World._call): among the first library
    line events, among the last ones, or at a uniformly drawn fraction of all of them"""
    r = rng.random()
    if r < 0.3:
        it = {"k": rng.randrange(1, 40)}
    elif r < 0.6:
        it = {"tail": rng.randrange(0, 40)}
    else:
        it = {"frac": round(rng.random(), 4)}
    if rng.random() < 0.25:
        it["exc"] = "KeyboardInterrupt"
    return it


def interleave(rng, seqs):
    """random merge of several per-node sequences preserving each one's order"""
    seqs = [list(s) for s in seqs if s]
    out = []
    while seqs:
        i = rng.randrange(len(seqs))
        out.append(seqs[i].pop(0))
        if not seqs[i]:
            seqs.pop(i)
    return out


def shape_of(scn):
    """hash input describing the *shape* of a scenario: op / fault-kind sequence + group kind"""
    parts = [scn["config"]["psets"][0]["group"]["kind"],
             "".join(n["cls"] for n in scn["config"]["nodes"])]
    if scn.get("intent"):
        parts.append(json.dumps(scn["intent"], sort_keys=True))
    for nd in scn["config"]["nodes"]:
        pw = nd.get("pw", "")
        parts.append("%s/%s/%s" % ((nd.get("entropy") or {}).get("mode", "-"),
                                   "e" if not pw else "1" if len(pw) == 2 else "s" if len(pw) <= 20 else "l",
                                   "i" if (nd.get("idA") or nd.get("idB") or nd.get("idS")) else "-"))
    for s in scn["steps"]:
        f = s.get("fault") or s.get("body") or {}
        parts.append("%s%s%s%s" % (s["op"][:3], s.get("n", s.get("dst", "")), f.get("kind", ""), s.get("what", "")))
    return "|".join(parts)
