"""Independent reference arithmetic for the groups python-spake2 uses.

Written from the protocol definition / RFC 8032 / EFD, sharing no code with the
library.  Integer groups use bare pow(); Edwards groups use plain projective
(X:Y:Z) coordinates with the complete `add-2008-bbjlp` law and double-and-add
(the library uses extended coordinates, hwcd formulas and a recursive ladder),
Tonelli-Shanks square roots (the library uses the Q = 5 mod 8 shortcut).

Both classes are parametric so that they describe the shipped groups as well as
toy instances.
"""
from .hkdf import hkdf_sha256, INFO_PW, INFO_ELEM


class BadElement(Exception):
    """Strict decoder rejection; .reason names the malformed class."""

    def __init__(self, reason):
        Exception.__init__(self, reason)
        self.reason = reason


def nbytes_for(maxval):
    bits = maxval.bit_length() or 1
    return (bits + 7) // 8


# ----------------------------------------------------------------------------
# integer groups: order-q subgroup of Zp*
# ----------------------------------------------------------------------------

class MIntGroup:
    kind = "int"
    rejects_identity = False

    def __init__(self, p, q, g):
        self.p, self.q, self.g = p, q, g
        self.scalar_size = nbytes_for(q)
        self.elem_size = nbytes_for(p)
        self.identity = 1
        self.base = g % p

    # arithmetic ------------------------------------------------------------
    def add(self, a, b):
        return a * b % self.p

    def mul(self, a, n):
        return pow(a, n % self.q, self.p)

    def neg(self, a):
        return pow(a, self.q - 1, self.p) if a != 1 else 1

    def is_identity(self, a):
        return a == 1

    def in_subgroup(self, a):
        return 0 < a < self.p and pow(a, self.q, self.p) == 1

    # codecs ------------------------------------------------------------------
    def enc(self, a):
        return a.to_bytes(self.elem_size, "big")

    def dec_strict(self, b):
        if len(b) != self.elem_size:
            raise BadElement("length")
        i = int.from_bytes(b, "big")
        if i == 0:
            raise BadElement("zero")
        if i >= self.p:
            raise BadElement("field-overflow")
        if pow(i, self.q, self.p) != 1:
            raise BadElement("not-in-subgroup")
        return i

    def enc_scalar(self, n):
        return n.to_bytes(self.scalar_size, "big")

    def dec_scalar(self, b):
        if len(b) != self.scalar_size:
            raise ValueError("scalar length")
        n = int.from_bytes(b, "big")
        if n >= self.q:
            raise ValueError("scalar range")
        return n

    # derivations ---------------------------------------------------------------
    def pw_scalar(self, pw):
        return int.from_bytes(hkdf_sha256(pw, self.scalar_size + 16, info=INFO_PW), "big") % self.q

    def arbitrary(self, seed):
        h = int.from_bytes(hkdf_sha256(seed, self.elem_size, info=INFO_ELEM), "big") % self.p
        return pow(h, (self.p - 1) // self.q, self.p)


class MIntGroupAltPw(MIntGroup):
    """same (p, q, g), but the application's group class maps passwords to scalars differently
    (e.g. a stretching KDF): a different group as far as SPAKE2 is concerned"""

    def pw_scalar(self, pw):
        import hashlib
        return int.from_bytes(hashlib.sha256(b"alt-kdf|" + pw).digest() * 4, "big") % self.q


# ----------------------------------------------------------------------------
# twisted Edwards groups  -x^2 + y^2 = 1 + d x^2 y^2  over GF(Q), 8*L points
# ----------------------------------------------------------------------------

def _tonelli(a, p):
    """square root of a mod odd prime p, or None"""
    a %= p
    if a == 0:
        return 0
    if pow(a, (p - 1) // 2, p) != 1:
        return None
    if p % 4 == 3:
        return pow(a, (p + 1) // 4, p)
    s, t = p - 1, 0
    while s % 2 == 0:
        s //= 2
        t += 1
    z = 2
    while pow(z, (p - 1) // 2, p) != p - 1:
        z += 1
    m, c, u, r = t, pow(z, s, p), pow(a, s, p), pow(a, (s + 1) // 2, p)
    while u != 1:
        i, v = 0, u
        while v != 1:
            v = v * v % p
            i += 1
        b = pow(c, 1 << (m - i - 1), p)
        m, c = i, b * b % p
        u, r = u * c % p, r * b % p
    return r


class MEdGroup:
    kind = "ed"
    rejects_identity = True
    elem_size = 32
    scalar_size = 32

    def __init__(self, Q, d, L, base):
        self.Q, self.d, self.L = Q, d % Q, L
        self.q = L
        self.identity = (0, 1)
        self.base = (base[0] % Q, base[1] % Q)

    # arithmetic on affine pairs, projective inside ----------------------------
    def _padd(self, P1, P2):
        Q, d = self.Q, self.d
        X1, Y1, Z1 = P1
        X2, Y2, Z2 = P2
        A = Z1 * Z2 % Q
        B = A * A % Q
        C = X1 * X2 % Q
        D = Y1 * Y2 % Q
        E = d * C * D % Q
        F = (B - E) % Q
        G = (B + E) % Q
        X3 = A * F * ((X1 + Y1) * (X2 + Y2) - C - D) % Q
        Y3 = A * G * (D + C) % Q          # a = -1
        Z3 = F * G % Q
        return (X3, Y3, Z3)

    def _aff(self, P):
        X, Y, Z = P
        zi = pow(Z, self.Q - 2, self.Q)
        return (X * zi % self.Q, Y * zi % self.Q)

    def add(self, a, b):
        return self._aff(self._padd((a[0], a[1], 1), (b[0], b[1], 1)))

    def mul_raw(self, a, n):
        """n*a for n >= 0 and any curve point (no reduction of n)"""
        acc = (0, 1, 1)
        P = (a[0], a[1], 1)
        for bit in bin(n)[2:]:
            acc = self._padd(acc, acc)
            if bit == "1":
                acc = self._padd(acc, P)
        return self._aff(acc)

    def mul(self, a, n):
        return self.mul_raw(a, n % self.L)

    def neg(self, a):
        return ((-a[0]) % self.Q, a[1])

    def is_identity(self, a):
        return a == (0, 1)

    def on_curve(self, a):
        x, y = a
        Q = self.Q
        return (-x * x + y * y - 1 - self.d * x * x * y * y) % Q == 0

    def in_subgroup(self, a):
        return self.on_curve(a) and self.mul_raw(a, self.L) == (0, 1)

    # codecs ------------------------------------------------------------------
    def enc(self, a):
        x, y = a
        return (y | ((x & 1) << 255)).to_bytes(32, "little")

    def decompress(self, b):
        """strict RFC 8032 decoding to any curve point"""
        if len(b) != 32:
            raise BadElement("length")
        v = int.from_bytes(b, "little")
        sign = v >> 255
        y = v & ((1 << 255) - 1)
        if y >= self.Q:
            raise BadElement("field-overflow")
        Q = self.Q
        num = (y * y - 1) % Q
        den = (self.d * y * y + 1) % Q
        xx = num * pow(den, Q - 2, Q) % Q
        x = _tonelli(xx, Q)
        if x is None:
            raise BadElement("off-curve")
        if x == 0 and sign:
            raise BadElement("sign-on-x0")
        if (x & 1) != sign:
            x = Q - x
        return (x, y)

    def dec_strict(self, b):
        P = self.decompress(b)
        if P == (0, 1):
            raise BadElement("identity")
        if self.mul_raw(P, self.L) != (0, 1):
            raise BadElement("not-in-subgroup")
        return P

    def enc_scalar(self, n):
        return (n % self.L).to_bytes(32, "little")

    def dec_scalar(self, b):
        if len(b) != 32:
            raise ValueError("scalar length")
        return int.from_bytes(b, "little")

    # derivations ---------------------------------------------------------------
    def pw_scalar(self, pw):
        return int.from_bytes(hkdf_sha256(pw, 32 + 16, info=INFO_PW), "big") % self.L

    def arbitrary(self, seed):
        Q = self.Q
        y0 = int.from_bytes(hkdf_sha256(seed, 32 + 16, info=INFO_ELEM), "big") % Q
        for plus in range(0, 100000):
            y = (y0 + plus) % Q
            num = (y * y - 1) % Q
            den = (self.d * y * y + 1) % Q
            x = _tonelli(num * pow(den, Q - 2, Q) % Q, Q)
            if x is None:
                continue
            if x & 1:
                x = Q - x
            P8 = self.mul_raw((x, y), 8)
            if P8 == (0, 1):
                continue
            return P8
        raise RuntimeError("no arbitrary element found")

    def torsion_points(self):
        """the 8 points of order dividing 8 (found by cofactor clearing)"""
        if getattr(self, "_tors", None):
            return self._tors
        pts = []
        y = 0
        Q = self.Q
        # a generator of the 8-torsion: L * (any point of full order 8L..)
        while len(pts) < 8 and y < Q and y < 5000:
            num = (y * y - 1) % Q
            den = (self.d * y * y + 1) % Q
            x = _tonelli(num * pow(den, Q - 2, Q) % Q, Q)
            y += 1
            if x is None:
                continue
            T = self.mul_raw((x, y - 1), self.L)
            # order of T divides 8; want exactly 8
            if self.mul_raw(T, 4) != (0, 1):
                pts = [self.mul_raw(T, k) for k in range(8)]
        self._tors = pts
        return pts


# the curve python-spake2 ships ---------------------------------------------------
ED_Q = 2 ** 255 - 19
ED_L = 2 ** 252 + 27742317777372353535851937790883648493
ED_D = (-121665 * pow(121666, ED_Q - 2, ED_Q)) % ED_Q
# RFC 8032 section 5.1 base point
ED_BX = 15112221349535400772501151409588531511454012693041857206046113283949847762202
ED_BY = 46316835694926478169428394003475163141307993866256225615783033603165251855960


def ed25519():
    return MEdGroup(ED_Q, ED_D, ED_L, (ED_BX, ED_BY))


# integer groups as released (NIST DSA examples / J-PAKE demo); frozen here on purpose:
# they are the wire format and must not follow an edit of the library.
I1024 = dict(
    p=0xE0A67598CD1B763BC98C8ABB333E5DDA0CD3AA0E5E1FB5BA8A7B4EABC10BA338FAE06DD4B90FDA70D7CF0CB0C638BE3341BEC0AF8A7330A3307DED2299A0EE606DF035177A239C34A912C202AA5F83B9C4A7CF0235B5316BFC6EFB9A248411258B30B839AF172440F32563056CB67A861158DDD90E6A894C72A5BBEF9E286C6B,
    q=0xE950511EAB424B9A19A2AEB4E159B7844C589C4F,
    g=0xD29D5121B0423C2769AB21843E5A3240FF19CACC792264E3BB6BE4F78EDD1B15C4DFF7F1D905431F0AB16790E1F773B5CE01C804E509066A9919F5195F4ABC58189FD9FF987389CB5BEDF21B4DAB4F8B76A055FFE2770988FE2EC2DE11AD92219F0B351869AC24DA3D7BA87011A701CE8EE7BFE49486ED4527B7186CA4610A75,
)
I2048 = dict(
    p=0xC196BA05AC29E1F9C3C72D56DFFC6154A033F1477AC88EC37F09BE6C5BB95F51C296DD20D1A28A067CCC4D4316A4BD1DCA55ED1066D438C35AEBAABF57E7DAE428782A95ECA1C143DB701FD48533A3C18F0FE23557EA7AE619ECACC7E0B51652A8776D02A425567DED36EABD90CA33A1E8D988F0BBB92D02D1D20290113BB562CE1FC856EEB7CDD92D33EEA6F410859B179E7E789A8F75F645FAE2E136D252BFFAFF89528945C1ABE705A38DBC2D364AADE99BE0D0AAD82E5320121496DC65B3930E38047294FF877831A16D5228418DE8AB275D7D75651CEFED65F78AFC3EA7FE4D79B35F62A0402A1117599ADAC7B269A59F353CF450E6982D3B1702D9CA83,
    q=0x90EAF4D1AF0708B1B612FF35E0A2997EB9E9D263C9CE659528945C0D,
    g=0xA59A749A11242C58C894E9E5A91804E8FA0AC64B56288F8D47D51B1EDC4D65444FECA0111D78F35FC9FDD4CB1F1B79A3BA9CBEE83A3F811012503C8117F98E5048B089E387AF6949BF8784EBD9EF45876F2E6A5A495BE64B6E770409494B7FEE1DBB1E4B2BC2A53D4F893D418B7159592E4FFFDF6969E91D770DAEBD0B5CB14C00AD68EC7DC1E5745EA55C706C4A1C5C88964E34D09DEB753AD418C1AD0F4FDFD049A955E5D78491C0B7A2F1575A008CCD727AB376DB6E695515B05BD412F5B8C2F4C77EE10DA48ABD53F5DD498927EE7B692BBBCDA2FB23A516C5B4533D73980B2A3B60E384ED200AE21B40D273651AD6060C13D97FD69AA13C5611A51B9085,
)
I3072 = dict(
    p=0x90066455B5CFC38F9CAA4A48B4281F292C260FEEF01FD61037E56258A7795A1C7AD46076982CE6BB956936C6AB4DCFE05E6784586940CA544B9B2140E1EB523F009D20A7E7880E4E5BFA690F1B9004A27811CD9904AF70420EEFD6EA11EF7DA129F58835FF56B89FAA637BC9AC2EFAAB903402229F491D8D3485261CD068699B6BA58A1DDBBEF6DB51E8FE34E8A78E542D7BA351C21EA8D8F1D29F5D5D15939487E27F4416B0CA632C59EFD1B1EB66511A5A0FBF615B766C5862D0BD8A3FE7A0E0DA0FB2FE1FCB19E8F9996A8EA0FCCDE538175238FC8B0EE6F29AF7F642773EBE8CD5402415A01451A840476B2FCEB0E388D30D4B376C37FE401C2A2C2F941DAD179C540C1C8CE030D460C4D983BE9AB0B20F69144C1AE13F9383EA1C08504FB0BF321503EFE43488310DD8DC77EC5B8349B8BFE97C2C560EA878DE87C11E3D597F1FEA742D73EEC7F37BE43949EF1A0D15C3F3E3FC0A8335617055AC91328EC22B50FC15B941D3D1624CD88BC25F3E941FDDC6200689581BFEC416B4B2CB73,
    q=0xCFA0478A54717B08CE64805B76E5B14249A77A4838469DF7F7DC987EFCCFB11D,
    g=0x5E5CBA992E0A680D885EB903AEA78E4A45A469103D448EDE3B7ACCC54D521E37F84A4BDD5B06B0970CC2D2BBB715F7B82846F9A0C393914C792E6A923E2117AB805276A975AADB5261D91673EA9AAFFEECBFA6183DFCB5D3B7332AA19275AFA1F8EC0B60FB6F66CC23AE4870791D5982AAD1AA9485FD8F4A60126FEB2CF05DB8A7F0F09B3397F3937F2E90B9E5B9C9B6EFEF642BC48351C46FB171B9BFA9EF17A961CE96C7E7A7CC3D3D03DFAD1078BA21DA425198F07D2481622BCE45969D9C4D6063D72AB7A0F08B2F49A7CC6AF335E08C4720E31476B67299E231F8BD90B39AC3AE3BE0C6B6CACEF8289A2E2873D58E51E029CAFBD55E6841489AB66B5B4B9BA6E2F784660896AFF387D92844CCB8B69475496DE19DA2E58259B090489AC8E62363CDF82CFD8EF2A427ABCD65750B506F56DDE3B988567A88126B914D7828E2B63A6D7ED0747EC59E0E0A23CE7D8A74C1D2C2A7AFB6A29799620F00E11C33787F7DED3B30E1A22D09F1FBDA1ABBBFBF25CAE05A13F812E34563F99410E73B,
)


def shipped_int(name):
    c = {"i1024": I1024, "i2048": I2048, "i3072": I3072}[name]
    return MIntGroup(c["p"], c["q"], c["g"])


# toy twisted Edwards curves -------------------------------------------------------

def is_prime(n):
    if n < 2:
        return False
    for sp in (2, 3, 5, 7, 11, 13, 17, 19, 23, 29, 31, 37):
        if n % sp == 0:
            return n == sp
    d, s = n - 1, 0
    while d % 2 == 0:
        d //= 2
        s += 1
    for a in (2, 3, 5, 7, 11, 13, 17, 19, 23, 29, 31, 37):
        x = pow(a, d, n)
        if x in (1, n - 1):
            continue
        for _ in range(s - 1):
            x = x * x % n
            if x == n - 1:
                break
        else:
            return False
    return True


def toy_edwards(Q, d, L):
    """Build the model group of the toy curve; verifies all side conditions.
    Returns None when (Q,d,L) is not a valid instance."""
    if not (is_prime(Q) and Q % 8 == 5 and is_prime(L)):
        return None
    d %= Q
    if d in (0, 1, Q - 1) or pow(d, (Q - 1) // 2, Q) != Q - 1:
        return None
    G = MEdGroup(Q, d, L, (0, 1))
    # count points
    n = 0
    pts = []
    for y in range(Q):
        num = (y * y - 1) % Q
        den = (d * y * y + 1) % Q
        xx = num * pow(den, Q - 2, Q) % Q
        x = _tonelli(xx, Q)
        if x is None:
            continue
        if x == 0:
            n += 1
            pts.append((0, y))
        else:
            n += 2
            pts.append((x, y))
    if n != 8 * L:
        return None
    for P in pts:
        B = G.mul_raw(P, 8)
        if B != (0, 1):
            G.base = B
            return G
    return None
