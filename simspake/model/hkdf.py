"""HKDF-SHA256 written from RFC 5869 (extract-then-expand), no library code shared."""
import hashlib
import hmac

_HLEN = 32


def hkdf_sha256(ikm, length, salt=b"", info=b""):
    if length > 255 * _HLEN:
        raise ValueError("HKDF output too long")
    if not salt:
        salt = b"\x00" * _HLEN
    prk = hmac.new(salt, ikm, hashlib.sha256).digest()
    out = b""
    t = b""
    i = 0
    while len(out) < length:
        i += 1
        t = hmac.new(prk, t + info + bytes([i]), hashlib.sha256).digest()
        out += t
    return out[:length]


INFO_PW = b"SPAKE2 pw"
INFO_ELEM = b"SPAKE2 arbitrary element"
