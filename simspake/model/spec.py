"""Executable specification of SPAKE2 as released by python-spake2 0.7+ (wire format)
and of the 0.9 persisted-state format.  Shares no code with the library."""
import hashlib
import json

from .groups import BadElement


def H(b):
    return hashlib.sha256(b).digest()


class MParams:
    """A parameter set: group + three blinding elements derived from seeds."""

    def __init__(self, group, M=b"M", N=b"N", S=b"symmetric"):
        self.group = group
        self.seeds = (M, N, S)
        self.M = group.arbitrary(M)
        self.N = group.arbitrary(N)
        self.S = group.arbitrary(S)
        self._empty = None

    def fingerprint(self, cls):
        g = self.group
        if self._empty is None:
            self._empty = g.enc(g.arbitrary(b"")) + g.enc_scalar(g.pw_scalar(b""))
        if cls == "S":
            tail = g.enc(self.S)
        else:
            tail = g.enc(self.M) + g.enc(self.N)
        return hashlib.sha256(self._empty + tail).hexdigest()


SIDE = {"A": b"A", "B": b"B", "S": b"S"}


class SpecError(Exception):
    """spec-level refusal; .name is the library's exception class name where the
    property fixes one, else a generic class."""

    def __init__(self, name):
        Exception.__init__(self, name)
        self.name = name


class SpecNode:
    """One side of the exchange, per specification."""

    def __init__(self, cls, pw, ida=b"", idb=b"", ids=b"", params=None):
        self.cls, self.pw, self.ida, self.idb, self.ids = cls, pw, ida, idb, ids
        self.params = params
        self.g = params.group
        self.w = self.g.pw_scalar(pw)
        self.x = None
        self.out = None

    def blinding(self):
        return {"A": self.params.M, "B": self.params.N, "S": self.params.S}[self.cls]

    def unblinding(self):
        return {"A": self.params.N, "B": self.params.M, "S": self.params.S}[self.cls]

    def start(self, x):
        g = self.g
        self.x = x % g.q
        elem = g.add(g.mul(g.base, self.x), g.mul(self.blinding(), self.w))
        self.out_elem = elem
        self.out = g.enc(elem)
        return SIDE[self.cls] + self.out

    def check_side(self, msg):
        side = msg[0:1]
        if self.cls in ("A", "B"):
            if side not in (b"A", b"B"):
                raise SpecError("BadSide")          # library: OffSides, property: any refusal
            if side == SIDE[self.cls]:
                raise SpecError("OffSides")
        else:
            if side in (b"A", b"B"):
                raise SpecError("OffSides")
            if side != b"S":
                raise SpecError("BadSide")
        return msg[1:]

    def finish(self, msg):
        g = self.g
        body = self.check_side(msg)
        try:
            inbound = g.dec_strict(body)
        except BadElement as e:
            raise SpecError("BadElement:" + e.reason)
        if g.enc(inbound) == self.out:
            raise SpecError("ReflectionThwarted")
        K = g.mul(g.add(inbound, g.mul(self.unblinding(), -self.w)), self.x)
        Kb = g.enc(K)
        if self.cls == "S":
            m1, m2 = sorted([body, self.out])
            return H(H(self.pw) + H(self.ids) + m1 + m2 + Kb)
        if self.cls == "A":
            X, Y = self.out, body
        else:
            X, Y = body, self.out
        return H(H(self.pw) + H(self.ida) + H(self.idb) + X + Y + Kb)

    # persisted state (0.9 format) ---------------------------------------------
    def state_dict(self):
        d = {"hashed_params": self.params.fingerprint(self.cls),
             "side": self.cls,
             "password": self.pw.hex(),
             "xy_scalar": self.g.enc_scalar(self.x).hex()}
        if self.cls == "S":
            d["idS"] = self.ids.hex()
        else:
            d["idA"] = self.ida.hex()
            d["idB"] = self.idb.hex()
        return d

    def encode_state(self, rng=None):
        """released format; key order and whitespace at the writer's discretion"""
        d = self.state_dict()
        keys = list(d.keys())
        seps = (", ", ": ")
        indent = None
        if rng is not None:
            rng.shuffle(keys)
            style = rng.randrange(4)
            if style == 0:
                seps = (",", ":")
            elif style == 1:
                indent = rng.choice([1, 2, 4])
                seps = (",", ": ")
            elif style == 2:
                seps = (" ,  ", " :\t")
        txt = json.dumps({k: d[k] for k in keys}, separators=seps, indent=indent)
        if rng is not None and rng.random() < 0.3:
            txt = rng.choice([" ", "\n", "\t", ""]) + txt + rng.choice(["\n", " ", "\r\n", ""])
        return txt.encode("ascii")


_HEX = set("0123456789abcdef")


def _is_lower_hex(s):
    return isinstance(s, str) and len(s) % 2 == 0 and all(c in _HEX for c in s)


class FormatError(Exception):
    pass


def parse_state_strict(blob, cls, params):
    """Strict decoder of the released state format.  Returns a resumed SpecNode."""
    if not isinstance(blob, bytes):
        raise FormatError("not bytes")
    try:
        txt = blob.decode("ascii")
    except UnicodeDecodeError:
        raise FormatError("not ascii")
    for ch in txt:
        o = ord(ch)
        if not (32 <= o < 127):
            raise FormatError("non printable char %r" % ch)
    try:
        pairs = json.loads(txt, object_pairs_hook=list)
    except ValueError:
        raise FormatError("not json")
    if not isinstance(pairs, list) or any(not (isinstance(kv, tuple) and len(kv) == 2) for kv in pairs):
        raise FormatError("not an object")
    keys = [k for k, _ in pairs]
    want = ["hashed_params", "side", "password", "xy_scalar"] + (["idS"] if cls == "S" else ["idA", "idB"])
    if len(set(keys)) != len(keys):
        raise FormatError("duplicate field")
    missing = [k for k in want if k not in keys]
    if missing:
        raise FormatError("missing field(s) %r, have %r" % (missing, sorted(keys)))
    # additional fields are tolerated: released readers ignore what they do not know
    d = dict(pairs)
    if d["side"] != cls:
        raise FormatError("side %r" % (d["side"],))
    for k in want:
        if k in ("side",):
            continue
        if not _is_lower_hex(d[k]):
            raise FormatError("field %s not lower-case hex" % k)
    g = params.group
    if len(d["xy_scalar"]) != 2 * g.scalar_size:
        raise FormatError("scalar width")
    if d["hashed_params"] != params.fingerprint(cls):
        raise FormatError("fingerprint recipe")
    x = g.dec_scalar(bytes.fromhex(d["xy_scalar"]))
    if not (0 <= x < g.q):
        raise FormatError("scalar out of range")
    if cls == "S":
        node = SpecNode("S", bytes.fromhex(d["password"]), ids=bytes.fromhex(d["idS"]), params=params)
    else:
        node = SpecNode(cls, bytes.fromhex(d["password"]), ida=bytes.fromhex(d["idA"]),
                        idb=bytes.fromhex(d["idB"]), params=params)
    node.start(x)
    return node
