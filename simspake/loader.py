"""Imports the library under test from $VERIF_REPO/src (default /repo/src), fresh, with
the entropy tripwire installed *before* the import (the default `entropy_f=os.urandom`
argument binds at import time)."""
import os
import random as _random_mod
import sys
import types

_STATE = {"lib": None}


class Tripwire:
    """Stands in for os.urandom.  Counts and records every call; returns a fixed,
    recognisable stream so that behaviour stays deterministic if it is ever used."""

    def __init__(self):
        self.calls = 0
        self.bytes = 0
        self.log = []
        self._ctr = 0

    def __call__(self, n):
        self.calls += 1
        self.bytes += n
        if len(self.log) < 50:
            f = sys._getframe(1)
            self.log.append("%s:%d" % (f.f_code.co_filename, f.f_lineno))
        out = bytearray()
        while len(out) < n:
            self._ctr += 1
            out += (0xA5A5A5A5 ^ self._ctr).to_bytes(4, "big")
        return bytes(out[:n])


class Lib:
    pass


def repo_root():
    return os.environ.get("VERIF_REPO", "/repo")


def load():
    if _STATE["lib"] is not None:
        return _STATE["lib"]
    sys.dont_write_bytecode = True
    src = os.path.join(repo_root(), "src")
    if not os.path.isdir(os.path.join(src, "spake2")):
        raise RuntimeError("no spake2 package under %s" % src)
    trip = Tripwire()
    real_urandom = os.urandom
    os.urandom = trip
    _random_mod._urandom = trip            # random.SystemRandom / secrets go through this
    for name in list(sys.modules):
        if name == "spake2" or name.startswith("spake2."):
            del sys.modules[name]
    sys.path.insert(0, src)
    import spake2                                   # noqa
    import spake2.spake2 as sp
    import spake2.groups as groups
    import spake2.params as params
    import spake2.util as util
    import spake2.ed25519_basic as edb
    import spake2.ed25519_group as edg
    from spake2.parameters.all import ParamsEd25519, Params1024, Params2048, Params3072
    here = os.path.realpath(spake2.__file__)
    if not here.startswith(os.path.realpath(src) + os.sep):
        raise RuntimeError("spake2 imported from %s, wanted %s" % (here, src))
    lib = Lib()
    lib.src = src
    lib.trip = trip
    lib.real_urandom = real_urandom
    lib.spake2 = sp
    lib.groups = groups
    lib.params = params
    lib.util = util
    lib.edb = edb
    lib.edg = edg
    lib.shipped = {"ed25519": ParamsEd25519, "i1024": Params1024,
                   "i2048": Params2048, "i3072": Params3072}
    lib.classes = {"A": sp.SPAKE2_A, "B": sp.SPAKE2_B, "S": sp.SPAKE2_Symmetric}
    _STATE["lib"] = lib
    return lib


def exec_module_copy(lib, relpath, modname, package="spake2"):
    """Execute the *source text* of a library module into a fresh module object (used to
    re-instantiate the Edwards code on a toy curve)."""
    path = os.path.join(lib.src, "spake2", relpath)
    with open(path, "r") as f:
        text = f.read()
    mod = types.ModuleType(modname)
    mod.__package__ = package
    mod.__file__ = path
    code = compile(text, path, "exec", dont_inherit=True)
    exec(code, mod.__dict__)
    return mod
