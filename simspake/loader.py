"""Imports the library under test from $VERIF_REPO/src (default /repo/src), fresh, with
the entropy tripwire installed *before* the import (the default `entropy_f=os.urandom`
argument binds at import time)."""
import hashlib
import os
import random as _random_mod
import sys
import types

_STATE = {"lib": None}


class Tripwire:
    """Stands in for os.urandom.  Counts and records every call; returns a fixed,
    recognisable stream so that behaviour stays deterministic if it is ever used."""

    def __init__(self):
        self.calls = 0
        self.bytes = 0
        self.log = []
        self._ctr = 0

    def __call__(self, n):
        self.calls += 1
        self.bytes += n
        if len(self.log) < 50:
            f = sys._getframe(1)
            self.log.append("%s:%d" % (f.f_code.co_filename, f.f_lineno))
        out = bytearray()
        while len(out) < n:
            self._ctr += 1
            out += hashlib.sha256(b"tripwire|%d" % self._ctr).digest()
        return bytes(out[:n])


class Lib:
    """one loaded copy of the library = the module state of one simulated process"""

    _SHIPPED_MOD = {"ed25519": ("spake2.parameters.ed25519", "ParamsEd25519"),
                    "i1024": ("spake2.parameters.i1024", "Params1024"),
                    "i2048": ("spake2.parameters.i2048", "Params2048"),
                    "i3072": ("spake2.parameters.i3072", "Params3072")}

    def __init__(self):
        self.modules = {}
        self._shipped = {}
        self._cache_groups = {}
        self._cache_params = {}
        self._subclasses = {}
        self.optimized = False

    def klass(self, cls, subclass=False):
        """the class applications use: the stock one, or a trivial application subclass whose
        finish() post-processes the key (restoring must give back the same class)"""
        if not subclass:
            return self.classes[cls]
        if cls not in self._subclasses:
            import hashlib as _h
            base = self.classes[cls]

            class AppSession(base):
                def finish(self, msg):
                    return _h.sha256(b"app-session|" + base.finish(self, msg)).digest()
            AppSession.__name__ = "App" + base.__name__
            self._subclasses[cls] = AppSession
        return self._subclasses[cls]

    def klass_pinned(self, cls, pinned_params):
        """an application subclass that always uses its own parameter set, whatever it is given"""
        base = self.classes[cls]

        class PinnedSession(base):
            def __init__(self, *a, **kw):
                kw["params"] = pinned_params
                base.__init__(self, *a, **kw)
        PinnedSession.__name__ = "Pinned" + base.__name__
        return PinnedSession

    def activate(self):
        return _Activation(self)

    def shipped_params(self, kind):
        """the module-level parameter set singleton of this copy (imported on first use)"""
        if kind not in self._shipped:
            modname, attr = self._SHIPPED_MOD[kind]
            with self.activate(), _CompileAsDashO(self.optimized):
                import importlib
                mod = importlib.import_module(modname)
            self._shipped[kind] = getattr(mod, attr)
        return self._shipped[kind]

    @property
    def shipped(self):
        return _ShippedView(self)


class _ShippedView:
    def __init__(self, lib):
        self.lib = lib

    def __getitem__(self, kind):
        return self.lib.shipped_params(kind)

    def __contains__(self, kind):
        return kind in Lib._SHIPPED_MOD


class _Activation:
    """makes `lib`'s module objects the ones registered in sys.modules for the duration of
    an import (several copies of the package coexist; only one can be registered)"""

    def __init__(self, lib):
        self.lib = lib

    def __enter__(self):
        from . import threads as _thr
        self.real_threading = sys.modules.get("threading")
        sys.modules["threading"] = _thr.proxy_threading_module()
        self.saved = {k: v for k, v in sys.modules.items() if k == "spake2" or k.startswith("spake2.")}
        for k in self.saved:
            del sys.modules[k]
        sys.modules.update(self.lib.modules)
        return self.lib

    def __exit__(self, *a):
        cur = {k: v for k, v in sys.modules.items() if k == "spake2" or k.startswith("spake2.")}
        self.lib.modules.update(cur)
        for k in cur:
            del sys.modules[k]
        sys.modules.update(self.saved)
        sys.modules["threading"] = self.real_threading
        return False


def repo_root():
    return os.environ.get("VERIF_REPO", "/repo")


class _CompileAsDashO:
    """while active, source files are compiled the way `python -O` compiles them (assert
    statements stripped).  No cached bytecode is ever read (sys.pycache_prefix points to an
    empty place), so patching the loader's compile step is enough."""

    def __init__(self, on):
        self.on = on

    def __enter__(self):
        if self.on:
            import importlib._bootstrap_external as _be
            self._be = _be
            self.orig = orig = _be.SourceLoader.source_to_code

            def source_to_code(self_, data, path, *, _optimize=-1):
                return orig(self_, data, path, _optimize=1)
            _be.SourceLoader.source_to_code = source_to_code

    def __exit__(self, *a):
        if self.on:
            self._be.SourceLoader.source_to_code = self.orig
        return False


def _import_copy(src, trip, eager, optimize=False):
    with _CompileAsDashO(optimize):
        lib = _import_copy_plain(src, trip, eager, optimize)
    return lib


def _import_copy_plain(src, trip, eager, optimize=False):
    lib = Lib()
    lib.optimized = optimize
    empty = Lib()
    # the library sees a proxy `threading` module: locks it creates cooperate with the simulated
    # thread scheduler instead of blocking the one runnable thread
    from . import threads as _thr
    real_threading = sys.modules.get("threading")
    sys.modules["threading"] = _thr.proxy_threading_module()
    try:
        return _import_copy_inner(lib, empty, src, trip, eager)
    finally:
        sys.modules["threading"] = real_threading


def _import_copy_inner(lib, empty, src, trip, eager):
    with _Activation(empty):          # park whatever copy is registered
        import spake2                                   # noqa
        import spake2.spake2 as sp
        import spake2.groups as groups
        import spake2.params as params
        import spake2.util as util
        import spake2.ed25519_basic as edb
        import spake2.ed25519_group as edg
        here = os.path.realpath(spake2.__file__)
        if not here.startswith(os.path.realpath(src) + os.sep):
            raise RuntimeError("spake2 imported from %s, wanted %s" % (here, src))
        lib.modules = {k: v for k, v in sys.modules.items() if k == "spake2" or k.startswith("spake2.")}
        for k in list(lib.modules):
            del sys.modules[k]
    lib.src = src
    lib.trip = trip
    lib.spake2, lib.groups, lib.params, lib.util, lib.edb, lib.edg = sp, groups, params, util, edb, edg
    lib.classes = {"A": sp.SPAKE2_A, "B": sp.SPAKE2_B, "S": sp.SPAKE2_Symmetric}
    if eager:
        for k in Lib._SHIPPED_MOD:
            lib.shipped_params(k)
    return lib


def load():
    """the default copy of this process (imported once; forked workers inherit it)"""
    if _STATE["lib"] is not None:
        return _STATE["lib"]
    sys.dont_write_bytecode = True
    # never read cached bytecode of the tree under test (nor write any)
    sys.pycache_prefix = os.path.join("/tmp", "simspake-no-pycache-%d" % os.getpid())
    src = os.path.join(repo_root(), "src")
    if not os.path.isdir(os.path.join(src, "spake2")):
        raise RuntimeError("no spake2 package under %s" % src)
    trip = Tripwire()
    real_urandom = os.urandom
    os.urandom = trip
    _random_mod._urandom = trip            # random.SystemRandom / secrets go through this
    for name in list(sys.modules):
        if name == "spake2" or name.startswith("spake2."):
            del sys.modules[name]
    sys.path.insert(0, src)
    lib = _import_copy(src, trip, eager=True)
    lib.real_urandom = real_urandom
    _STATE["lib"] = lib
    return lib


def load_fresh(optimize=False):
    """a brand-new copy of the package: the module state of a process that has just started
    (nothing cached, nothing memoised).  Parameter sets beyond the default are imported on
    first use, as an application would.  optimize=True: as under `python -O`."""
    base = load()
    return _import_copy(base.src, base.trip, eager=False, optimize=optimize)


def exec_module_copy(lib, relpath, modname, package="spake2"):
    """Execute the *source text* of a library module into a fresh module object (used to
    re-instantiate the Edwards code on a toy curve)."""
    path = os.path.join(lib.src, "spake2", relpath)
    with open(path, "r") as f:
        text = f.read()
    mod = types.ModuleType(modname)
    mod.__package__ = package
    mod.__file__ = path
    code = compile(text, path, "exec", dont_inherit=True)
    with lib.activate():
        exec(code, mod.__dict__)
    return mod
