"""The simulated deployment: nodes running *real* python-spake2 instances (or the
reference model standing in for an independent implementation), a durable blob slot per
node, an entropy seam per node, an adversarial in-memory network, and crash/recover as
operations.  A scenario (config + step list) is executed deterministically; the event log
it produces contains no wall-clock, address or PRNG-in-logging artefact."""
import hashlib
import json
import math
import os
import random
import sys

from . import faults, loader, worlds
from .seams import EntropySource, make_entropy
from .model.spec import SpecNode, SpecError, parse_state_strict, FormatError


class InjectedFault(MemoryError):
    """an allocation failure (or any exception a deployment can meet) raised by the simulator at a
    chosen line event INSIDE a library call: the call is aborted at an arbitrary instant"""


class InjectedInterrupt(KeyboardInterrupt):
    """the same, as a BaseException (signal / cancellation): `except Exception` does not stop it"""


INTR_EXC = {"MemoryError": InjectedFault, "KeyboardInterrupt": InjectedInterrupt}


def _lib_prefix(lib):
    return os.path.join(os.path.realpath(lib.src), "spake2") + os.sep


def _line_tracer(prefix, on_line):
    """global trace function: line events of frames whose code lives in the library under test"""
    def local(frame, ev, arg):
        if ev == "line":
            on_line()
        return local

    def glob(frame, ev, arg):
        fn = frame.f_code.co_filename
        if fn.startswith(prefix) and (os.sep + "test" + os.sep) not in fn:
            return local
        return None
    return glob


def count_lines_in_fork(prefix, fn, args):
    """dry run of a library call in a forked child (the parent's state is untouched): number of
    line events the call executes inside library frames.  Deterministic: the child is an exact
    copy of the caller."""
    r, wfd = os.pipe()
    pid = os.fork()
    if pid == 0:
        try:
            os.close(r)
            cnt = [0]

            def on_line():
                cnt[0] += 1
            sys.settrace(_line_tracer(prefix, on_line))
            try:
                fn(*args)
            except BaseException:        # noqa
                pass
            sys.settrace(None)
            os.write(wfd, str(cnt[0]).encode())
        finally:
            os._exit(0)
    os.close(wfd)
    data = b""
    while True:
        b = os.read(r, 64)
        if not b:
            break
        data += b
    os.close(r)
    os.waitpid(pid, 0)
    return int(data) if data else 0


def dg(b):
    if b is None:
        return "-"
    if isinstance(b, str):
        b = b.encode()
    return hashlib.sha256(b).hexdigest()[:10]


def hx(s):
    return bytes.fromhex(s) if s else b""


class Node:
    def __init__(self, world, idx, cfg):
        self.world, self.idx, self.cfg = world, idx, cfg
        self.cls = cfg["cls"]
        self.pw = hx(cfg.get("pw", ""))
        self.ida, self.idb, self.ids = hx(cfg.get("idA", "")), hx(cfg.get("idB", "")), hx(cfg.get("idS", ""))
        self.pset = cfg.get("pset", 0)
        self.host = cfg.get("host", 0)
        self.subclass = bool(cfg.get("subclass"))
        self.impl = cfg.get("impl", "real")
        self.entropy = make_entropy(cfg.get("entropy"))
        self.inst = None          # volatile
        self.slot = None          # durable blob
        self.slot_meta = None     # (cls, pset, impl) that wrote the slot
        self.out = None           # message returned by start(), as kept by the application
        self.result = None        # ("key", bytes) | ("exc", name)
        self.inbound = None       # bytes handed to finish()
        self.inbound_fault = None
        self.booted = False
        self.lost = False         # crashed with nothing durable
        self.restores = 0
        self.crashes = 0
        self.spec = None          # shadow SpecNode (same config), follows the real node
        self.x = None             # secret scalar as reported by serialize()
        self.calls = []           # (api, outcome-class) on the *current* instance chain
        self.cur_cls, self.cur_pset = self.cls, self.pset
        self.wrong_restore = False

    # helpers -----------------------------------------------------------------
    def mparams(self, pset=None):
        return worlds.model_params(self.world.psets[self.cur_pset if pset is None else pset])

    def lib(self):
        return self.world.host_lib(self.host)

    def lparams(self, pset=None):
        return worlds.lib_params(self.world.psets[self.cur_pset if pset is None else pset], self.lib(),
                                 cache=not self.world.ephemeral)

    def make_spec(self, cls=None, pset=None):
        return SpecNode(cls or self.cls, self.pw, self.ida, self.idb, self.ids, params=self.mparams(pset))


class World:
    def __init__(self, config, shadow=True):
        self.lib = loader.load()
        self.lib.trip._ctr = 0        # the tripwire's answer stream restarts with every run
        # hosts = simulated processes.  By default every node lives in the worker's long-running
        # default copy of the library; a scenario with "fresh_hosts" gives every host its own
        # brand-new copy (so the run is self-contained) and may `reboot` a host.
        self.ephemeral = bool(config.get("ephemeral_params"))   # custom _Params live and die with a session
        self.optimize = bool(config.get("python_O"))          # the simulated processes run under -O
        self.fresh_hosts = bool(config.get("fresh_hosts")) or self.optimize
        self.hosts = {} if self.fresh_hosts else {0: self.lib}
        self.reboots = 0
        self.dead_hosts = []
        self.config = config
        self.psets = config["psets"]
        self.shadow = shadow
        self.nodes = [Node(self, i, c) for i, c in enumerate(config["nodes"])]
        self.events = []
        self.acct = []            # (node, api, seam_bytes, tripwire_calls)
        self.tick = 0
        self.fired = {}           # fault kind -> count actually applied
        self.probes = {}
        self.skipped = 0
        self.findings = []        # filled by oracles
        self._intr, self._intr_skip, self._intr_info = None, 0, None

    def host_lib(self, h):
        if h not in self.hosts:
            self.hosts[h] = loader.load_fresh(self.optimize) if self.fresh_hosts else self.lib
        return self.hosts[h]

    def op_reboot(self, step):
        """the whole simulated process dies: every live instance on the host is gone and so
        is all module-level state; only the durable slots survive"""
        h = step.get("host", 0)
        down = []
        for n in self.nodes:
            if n.host == h and n.inst is not None and n.impl == "real":
                n.inst = None
                n.crashes += 1
                n.calls = []
                if n.slot is None:
                    n.lost = True
                down.append(n.idx)
        if self.fresh_hosts:
            # the dead process's objects are kept alive (unreachable for the sessions): a restarted
            # process shares no address with its predecessor, and which addresses the allocator
            # would hand out again must not decide a run
            self.dead_hosts.append(self.hosts.get(h))
            self.hosts[h] = loader.load_fresh(self.optimize)
        self.reboots += 1
        self.probe("host-reboot")
        return self.log(step, "down", host=h, nodes=down)

    # accounting wrapper around every library call -----------------------------------
    def _call(self, node, api, fn, *args):
        trip = self.lib.trip
        t0 = trip.calls
        e = node.entropy
        e.active = api
        b0 = e.total
        intr = self._intr
        if intr is not None:
            if self._intr_skip > 0:
                self._intr_skip -= 1
                intr = None
            else:
                self._intr = None
        if intr is not None:
            # fault: the call is aborted at a chosen line event inside the library
            prefix = _lib_prefix(self.lib)
            if "frac" in intr:
                total = count_lines_in_fork(prefix, fn, args)
                k = max(1, min(total, int(math.ceil(float(intr["frac"]) * total)))) if total else 0
            elif "tail" in intr:
                total = count_lines_in_fork(prefix, fn, args)
                k = max(1, total - int(intr["tail"])) if total else 0
            else:
                total, k = None, int(intr["k"])
            exc_cls = INTR_EXC.get(intr.get("exc", "MemoryError"), InjectedFault)
            cnt = [0]

            info = {"k": k, "of": total, "api": api, "fired": False}

            def on_line():
                cnt[0] += 1
                if cnt[0] == k:
                    info["fired"] = True
                    self.fired["interrupt:" + api] = self.fired.get("interrupt:" + api, 0) + 1
                    raise exc_cls("injected at library line event %d" % k)
            self._intr_info = info
            if k > 0:
                sys.settrace(_line_tracer(prefix, on_line))
        try:
            r = ("ret", fn(*args))
        except (InjectedFault, InjectedInterrupt) as ex:
            r = ("exc", "InjectedFault")
        except Exception as ex:              # noqa: every library failure is an outcome
            r = ("exc", type(ex).__name__)
        finally:
            if intr is not None:
                sys.settrace(None)
            e.active = None
        self.acct.append((node.idx, api, e.total - b0, trip.calls - t0))
        return r

    def probe(self, name, n=1):
        self.probes[name] = self.probes.get(name, 0) + n

    def log(self, step, out, digest="-", **extra):
        ev = {"i": len(self.events), "op": step["op"], "n": step.get("n", step.get("dst")),
              "out": out, "d": digest}
        ev.update(extra)
        self.events.append(ev)
        return ev

    # operations ---------------------------------------------------------------------
    def apply(self, step):
        self.tick += 1
        op = step["op"]
        intr = step.get("interrupt")
        if intr is None:
            return getattr(self, "op_" + op)(step)
        self._intr, self._intr_skip, self._intr_info = intr, int(intr.get("skip", 0)), None
        try:
            ev = getattr(self, "op_" + op)(step)
        finally:
            self._intr = None
        info = self._intr_info
        if info is not None and ev is not None:
            ev["intr"] = info
            if info["fired"]:
                ev["interrupted"] = True
        return ev

    def op_boot(self, step):
        n = self.nodes[step["n"]]
        if n.booted:
            self.skipped += 1
            return self.log(step, "skip")
        n.booted = True
        if self.shadow or n.impl == "model":
            n.spec = n.make_spec()
        if n.impl == "model":
            n.inst = "model"
            return self.log(step, "ok")
        K = n.lib().klass(n.cls, n.subclass)
        try:
            P = n.lparams()
        except Exception as ex:          # the library refused to build this parameter set
            return self.log(step, "exc:params:" + type(ex).__name__)
        if n.cls == "S":
            r = self._call(n, "init", lambda: K(n.pw, idSymmetric=n.ids, params=P, entropy_f=n.entropy))
        else:
            r = self._call(n, "init", lambda: K(n.pw, idA=n.ida, idB=n.idb, params=P, entropy_f=n.entropy))
        if r[0] == "ret":
            n.inst = r[1]
            return self.log(step, "ok")
        return self.log(step, "exc:" + r[1])

    def _read_scalar(self, n, blob):
        """the secret scalar a real node reports in serialize()"""
        try:
            d = json.loads(blob.decode("ascii"))
            return n.mparams().group.dec_scalar(bytes.fromhex(d["xy_scalar"]))
        except Exception:
            return None

    def scalar_of(self, n):
        """secret scalar of a real node, read (after the fact) from its public serialize()
        output or from its durable slot; None when neither exists any more"""
        if n.x is not None:
            return n.x
        blob = None
        if n.inst is not None and n.impl == "real":
            try:
                blob = n.inst.serialize()
            except Exception:
                blob = None
        if blob is None and n.slot_meta and n.slot_meta[2] == "real":
            blob = n.slot
        if isinstance(blob, bytes):
            n.x = self._read_scalar(n, blob)
        return n.x

    def op_start(self, step):
        n = self.nodes[step["n"]]
        if n.inst is None:
            self.skipped += 1
            return self.log(step, "skip")
        if n.impl == "model":
            if n.out is not None:
                self.skipped += 1
                return self.log(step, "skip")
            g = n.spec.g
            n.entropy.active = "start"
            x = int.from_bytes(n.entropy(64), "big") % g.q
            n.entropy.active = None
            n.x = x
            n.out = n.spec.start(x)
            n.calls.append(("start", "msg"))
            return self.log(step, "msg", dg(n.out))
        nested = step.get("nested")
        if nested:
            # the entropy function is application code (a shared pool, a green-thread yield point):
            # while this start() waits for its bytes, OTHER sessions of the process make their calls
            def run_nested():
                for s2 in nested:
                    self.apply(s2)
            n.entropy.hook = run_nested
        r = self._call(n, "start", n.inst.start)
        n.entropy.hook = None
        if nested:
            self.fired["nested-calls-inside-entropy-read"] = self.fired.get("nested-calls-inside-entropy-read", 0) + 1
        if r[0] == "exc":
            n.calls.append(("start", "exc:" + r[1]))
            return self.log(step, "exc:" + r[1])
        msg = r[1]
        n.calls.append(("start", "msg"))
        first = n.out is None
        if first:
            n.out = msg
        ev = self.log(step, "msg", dg(msg), first=first)
        ev["msg"] = msg
        # learn x for the shadow (serialize is pure: C08 checks that separately)
        if first and n.spec is not None and isinstance(msg, bytes):
            rb = self._call(n, "serialize", n.inst.serialize)
            if rb[0] == "ret" and isinstance(rb[1], bytes):
                n.x = self._read_scalar(n, rb[1])
                if n.x is not None:
                    n.spec_out = n.spec.start(n.x)
        return ev

    def op_serialize(self, step):
        n = self.nodes[step["n"]]
        if n.inst is None or n.impl == "model":
            self.skipped += 1
            return self.log(step, "skip")
        r = self._call(n, "serialize", n.inst.serialize)
        if r[0] == "exc":
            n.calls.append(("serialize", "exc:" + r[1]))
            return self.log(step, "exc:" + r[1])
        n.calls.append(("serialize", "blob"))
        ev = self.log(step, "blob", dg(r[1]))
        ev["blob"] = r[1]
        return ev

    def op_persist(self, step):
        n = self.nodes[step["n"]]
        if n.inst is None:
            self.skipped += 1
            return self.log(step, "skip")
        if n.impl == "model":
            if n.out is None:
                self.skipped += 1
                return self.log(step, "skip")
            fmt = step.get("fmt")
            rng = random.Random(fmt) if fmt is not None else None
            blob = n.spec.encode_state(rng)
            n.slot, n.slot_meta = blob, (n.cur_cls, n.cur_pset, "model")
            return self.log(step, "blob", dg(blob))
        r = self._call(n, "serialize", n.inst.serialize)
        if r[0] == "exc":
            n.calls.append(("serialize", "exc:" + r[1]))
            return self.log(step, "exc:" + r[1])
        n.calls.append(("serialize", "blob"))
        blob = r[1]
        if step.get("reencode") is not None and isinstance(blob, bytes):
            # an application may store the JSON re-serialized (other key order / whitespace)
            try:
                d = json.loads(blob.decode("ascii"))
                rng = random.Random(step["reencode"])
                keys = list(d.keys())
                rng.shuffle(keys)
                blob = json.dumps({k: d[k] for k in keys},
                                  separators=rng.choice([(",", ":"), (", ", ": "), (" , ", " : ")]),
                                  indent=rng.choice([None, None, 1, 3])).encode("ascii")
            except Exception:
                pass
        n.slot, n.slot_meta = blob, (n.cur_cls, n.cur_pset, "real")
        ev = self.log(step, "blob", dg(blob))
        ev["blob"] = blob
        return ev

    def op_crash(self, step):
        n = self.nodes[step["n"]]
        if n.inst is None:
            self.skipped += 1
            return self.log(step, "skip")
        self._drop_instance(n)
        n.crashes += 1
        if n.slot is None:
            n.lost = True
        n.calls = []
        return self.log(step, "down", lost=n.lost)

    def _drop_instance(self, n):
        addrs = None
        if self.ephemeral and n.impl == "real" and n.inst is not None:
            P = getattr(n.inst, "params", None)
            if P is not None and worlds.is_ephemeral(P):
                addrs = worlds.addresses_of(P)
            del P
        n.inst = None
        if addrs is not None:
            # the session's private parameter set died with it: its address (and those of the elements
            # it owned) is free again, and a set built later may well receive it.  Make that the rule
            # rather than allocator luck.
            if worlds.reserve_dead_addresses(*addrs):
                self.probe("ephemeral-params-address-reused")

    def op_recover(self, step):
        n = self.nodes[step["n"]]
        if n.inst is not None or n.slot is None or not n.booted:
            self.skipped += 1
            return self.log(step, "skip")
        cls = step.get("cls", n.cur_cls)
        pset = step.get("pset", n.cur_pset)
        impl = step.get("impl", n.impl)
        saved_cls, saved_pset, _ = n.slot_meta
        if impl == "model":
            try:
                spec = parse_state_strict(n.slot, cls, worlds.model_params(self.psets[pset]))
            except (FormatError, ValueError, KeyError) as e:
                return self.log(step, "exc:FormatError", detail=str(e)[:80])
            n.impl, n.inst, n.spec = "model", "model", spec
            n.cur_cls, n.cur_pset = cls, pset
            n.restores += 1
            n.calls = [("restore", "inst")]
            n.model_out = spec.out
            return self.log(step, "inst", dg(spec.out))
        K = n.lib().klass(cls, n.subclass)
        try:
            P = n.lparams(pset)
            if step.get("pinned") is not None:
                K = n.lib().klass_pinned(cls, n.lparams(step["pinned"]))
        except Exception as ex:
            return self.log(step, "exc:params:" + type(ex).__name__)
        blob_arg = n.slot
        if step.get("blob_as") == "bytearray":
            blob_arg = bytearray(n.slot)       # read into a reusable buffer (readinto / recv_into / a driver's row buffer)
        r = self._call(n, "from_serialized", lambda: K.from_serialized(blob_arg, params=P))
        if step.get("scrub") and isinstance(blob_arg, bytearray):
            for i in range(len(blob_arg)):     # ... which the application wipes or reuses afterwards
                blob_arg[i] = 0x2a
        if r[0] == "exc":
            return self.log(step, "exc:" + r[1])
        n.impl = "real"
        n.inst = r[1]
        n.restored_type_ok = type(r[1]) is K
        n.restores += 1
        n.calls = [("restore", "inst")]
        if step.get("pinned") is not None:
            pset = step["pinned"]           # the parameter set the instance really uses
        if (cls, pset) != (saved_cls, saved_pset):
            n.wrong_restore = True
        n.cur_cls, n.cur_pset = cls, pset
        return self.log(step, "inst", restored_as=[cls, pset], saved_as=[saved_cls, saved_pset])

    def _ctx(self, dst):
        return faults.Ctx(dst.mparams().group, dst.mparams(), dst.out, [m.out for m in self.nodes])

    def _finish(self, step, dst, wire, fault_applied, fkind):
        if dst.impl == "model":
            try:
                key = dst.spec.finish(wire)
                r = ("ret", key)
            except SpecError as e:
                r = ("exc", e.name)
        else:
            r = self._call(dst, "finish", dst.inst.finish, wire)
        dst.inbound, dst.inbound_fault = wire, (fkind if fault_applied else None)
        if r[0] == "exc":
            oc = "exc:" + r[1]
            dst.calls.append(("finish", oc))
            if dst.result is None or dst.result[0] != "key":
                dst.result = ("exc", r[1])
            ev = self.log(step, oc, dg(bytes(wire)), fault=fkind if fault_applied else None)
        else:
            dst.calls.append(("finish", "key"))
            ev = self.log(step, "key", dg(r[1]), fault=fkind if fault_applied else None)
            ev["key"] = r[1]
            if dst.result is not None and dst.result[0] == "key":
                ev["second_key"] = True
            dst.result = ("key", r[1])
        ev["wire"] = bytes(wire)
        return ev

    def op_deliver(self, step):
        src, dst = self.nodes[step["src"]], self.nodes[step["dst"]]
        if src.out is None or dst.inst is None or not isinstance(src.out, bytes):
            self.skipped += 1
            return self.log(step, "skip")
        fault = step.get("fault")
        wire, applied = faults.apply(fault, src.out, self._ctx(dst))
        fkind = fault.get("kind") if fault else None
        if applied:
            self.fired[fkind] = self.fired.get(fkind, 0) + 1
        return self._finish(step, dst, wire, applied, fkind)

    def op_craft(self, step):
        """the adversary builds a message without any peer: label byte(s) + body"""
        dst = self.nodes[step["dst"]]
        if dst.inst is None:
            self.skipped += 1
            return self.log(step, "skip")
        lab = step.get("label")
        if lab is None:
            label = b""
        elif lab == "own":
            label = dst.cur_cls.encode()
        elif lab == "peer":
            label = {"A": b"B", "B": b"A", "S": b"S"}[dst.cur_cls]
        else:
            label = bytes([lab % 256])
        body = step.get("body", {"kind": "rand", "n": 32, "seed": 0})
        wire = label + self.resolve_body(body, dst.cur_pset, dst)
        kind = "craft:" + body.get("kind", "?")
        self.fired[kind] = self.fired.get(kind, 0) + 1
        if step.get("as") == "bytearray":
            wire = bytearray(wire)
        elif step.get("as") == "memoryview":
            wire = memoryview(wire)
        return self._finish(step, dst, wire, True, kind)


    def op_load_blob(self, step):
        """a row written by an earlier deployment (frozen golden blob) is found in storage"""
        from . import selfcheck
        n = self.nodes[step["n"]]
        gb = selfcheck.golden()["blobs"][step["golden"]]
        n.slot = gb["blob"].encode("ascii")
        n.slot_meta = (gb["cls"], n.pset, "golden")
        n.booted = True
        n.inst = None
        n.golden = gb
        return self.log(step, "blob", dg(n.slot))

    def op_call(self, step):
        """one raw API call on the node's current instance (call-history exploration)"""
        n = self.nodes[step["n"]]
        what = step["what"]
        if n.inst is None or n.impl != "real":
            self.skipped += 1
            return self.log(step, "skip")
        if what in ("start", "start_fail", "start_reentrant"):
            saved = n.entropy.mode
            if what == "start_fail":
                n.entropy.mode = "fail"
            inner = {}
            if what == "start_reentrant":
                # the entropy function is application code: while it runs (inside start()) it calls
                # start() on the same instance again - a nested call in the instance's history
                inst = n.inst

                def reenter():
                    try:
                        inner["out"], inner["msg"] = "msg", inst.start()
                    except Exception as ex:          # noqa
                        inner["out"] = "exc:" + type(ex).__name__
                n.entropy.hook = reenter
            r = self._call(n, "start", n.inst.start)
            n.entropy.mode = saved
            n.entropy.hook = None
            if r[0] == "exc":
                n.calls.append(("start", "exc:" + r[1]))
                ev = self.log(step, "exc:" + r[1], what=what)
            else:
                n.calls.append(("start", "msg"))
                if n.out is None and isinstance(r[1], bytes):
                    n.out = r[1]
                ev = self.log(step, "msg", dg(r[1]), what=what)
                ev["msg"] = r[1]
            if inner:
                ev["inner"] = inner["out"]
            return ev
        if what == "serialize":
            r = self._call(n, "serialize", n.inst.serialize)
            if r[0] == "exc":
                n.calls.append(("serialize", "exc:" + r[1]))
                return self.log(step, "exc:" + r[1], what=what)
            n.calls.append(("serialize", "blob"))
            ev = self.log(step, "blob", dg(r[1]), what=what)
            ev["blob"] = r[1]
            return ev
        if what == "restore":
            r = self._call(n, "serialize", n.inst.serialize)
            if r[0] == "exc":
                n.calls.append(("serialize", "exc:" + r[1]))
                return self.log(step, "exc:" + r[1], what=what, phase="serialize")
            blob = r[1]
            K = n.lib().klass(n.cur_cls, n.subclass)
            P = n.lparams()
            r2 = self._call(n, "from_serialized", lambda: K.from_serialized(blob, params=P))
            if r2[0] == "exc":
                n.calls.append(("restore", "exc:" + r2[1]))
                return self.log(step, "exc:" + r2[1], what=what, phase="from_serialized")
            n.inst = r2[1]
            n.restores += 1
            n.calls = [("restore", "inst")]
            ev = self.log(step, "inst", dg(blob), what=what)
            ev["blob"] = blob
            return ev
        if what.startswith("finish_"):
            g = n.mparams().group
            cls = n.cur_cls
            acc = {"A": b"B", "B": b"A", "S": b"S"}[cls]
            k = what[7:]
            if k == "valid":
                wire = acc + g.enc(g.mul(g.base, int(step.get("k", 7))))
            elif k == "own_side":
                wire = (cls.encode() if cls != "S" else b"A") + g.enc(g.mul(g.base, 3))
            elif k == "unknown_side":
                wire = bytes([step.get("v", 0x43)]) + g.enc(g.mul(g.base, 3))
            elif k == "reflected":
                wire = acc + (n.out[1:] if isinstance(n.out, bytes) else g.enc(g.base))
            elif k == "undecodable":
                wire = acc + (b"\x00" * g.elem_size if step.get("v", 0) % 2 == 0 else b"\x01\x02\x03")
            elif k == "identity":
                wire = acc + g.enc(g.identity)
            else:
                raise ValueError(what)
            if step.get("as") == "bytearray":
                wire = bytearray(wire)
            elif step.get("as") == "memoryview":
                wire = memoryview(wire)
            ev = self._finish(step, n, wire, True, "call:" + k)
            ev["what"] = what
            return ev
        raise ValueError(what)

    def resolve_body(self, body, pset, dst=None):
        """bytes of an adversary-built element encoding (no label)"""
        mp = worlds.model_params(self.psets[pset])
        g = mp.group
        kind = body.get("kind")
        if kind == "hex":
            return bytes.fromhex(body["hex"])
        if kind == "valid":
            return g.enc(g.mul(g.base, int(body.get("k", 5))))
        if kind == "own":
            return dst.out[1:] if dst is not None and isinstance(dst.out, bytes) else b""
        if kind == "reflect_variant":
            from .props.c06 import resolve_variant
            return resolve_variant(self, body, dst)
        base = b"?" + g.enc(g.mul(g.base, int(body.get("base_k", 1))))
        ctx = faults.Ctx(g, mp, dst.out if dst is not None else None, [m.out for m in self.nodes])
        wire, _ = faults.apply(body, base, ctx)
        return wire if kind == "strip_side" else wire[1:]

    def op_aux(self, step):
        """the application calls another public helper of the library in the same process
        (outcome irrelevant; later strict decoding must be unaffected)"""
        pset = step.get("pset", 0)
        gk = self.psets[pset]["group"]["kind"]
        b = self.resolve_body(step["body"], pset)
        lib = self.host_lib(step.get("host", 0))
        G = worlds.lib_params(self.psets[pset], lib).group
        mod = getattr(G, "_toy_module", None) or (lib.edb if gk == "ed25519" else None)
        fn = getattr(mod, step.get("fn", "bytes_to_unknown_group_element"), None) if mod is not None else None
        if fn is None:
            self.skipped += 1
            return self.log(step, "skip")
        try:
            fn(b)
            out = "ok"
        except Exception as ex:
            out = "exc:" + type(ex).__name__
        return self.log(step, out, dg(b))

    def op_decode(self, step):
        """offer a byte string directly to params.group.bytes_to_element"""
        pset = step.get("pset", 0)
        b = self.resolve_body(step["body"], pset)
        G = worlds.lib_params(self.psets[pset], self.host_lib(step.get("host", 0))).group
        try:
            e = G.bytes_to_element(b)
            back = e.to_bytes()
            out = "elem"
        except Exception as ex:
            out, back = "exc:" + type(ex).__name__, None
        ev = self.log(step, out, dg(b))
        ev["wire"], ev["back"], ev["pset"] = b, back, pset
        self.fired["decode:" + step["body"].get("kind", "?")] = self.fired.get("decode:" + step["body"].get("kind", "?"), 0) + 1
        return ev


def run_scenario(scn, shadow=True, hooks=None):
    """execute a scenario; hooks: object with after_step(world, step, event) and
    finish(world) -> list of violation dicts"""
    import sys
    saved_byteorder = sys.byteorder
    if scn["config"].get("big_endian_host"):
        # platform seam: pure-Python code that consults sys.byteorder sees a big-endian host
        sys.byteorder = "big"
    try:
        w = World(scn["config"], shadow=shadow)
        w.scn = scn
        for step in scn["steps"]:
            ev = w.apply(step)
            if hooks is not None:
                hooks.after_step(w, step, ev)
        if hooks is not None:
            hooks.finish(w)
    finally:
        sys.byteorder = saved_byteorder
    return w


def log_digest(world):
    h = hashlib.sha256()
    for ev in world.events:
        line = "%d %s %s %s %s" % (ev["i"], ev["op"], ev["n"], ev["out"], ev["d"])
        h.update(line.encode() + b"\n")
    for f in world.findings:
        h.update(json.dumps(f["sig"], sort_keys=True).encode() + b"\n")
    return h.hexdigest()[:16]


def log_lines(world):
    out = []
    for ev in world.events:
        extra = {k: v for k, v in ev.items()
                 if k not in ("i", "op", "n", "out", "d", "msg", "blob", "key", "wire", "back", "inner_msg")}
        out.append("%3d %-9s n=%s -> %s [%s] %s" % (ev["i"], ev["op"], ev["n"], ev["out"], ev["d"],
                                                      json.dumps(extra, sort_keys=True) if extra else ""))
    return out
