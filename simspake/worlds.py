"""Parameter-set registry: one JSON-able spec -> (library _Params object, model MParams).

Library objects are cached per process, so several sessions of one world share the
same group / parameter objects exactly as sessions of one application process do."""
import sys
import json

from . import loader
from .model import groups as mg
from .model.spec import MParams

DEFAULT_SEEDS = {"M": b"M", "N": b"N", "S": b"symmetric"}

TOY_CURVES = [(101, 12, 11), (109, 11, 13), (149, 3, 17), (157, 24, 19)]

_model_groups = {}
_model_params = {}


class ToyUnavailable(Exception):
    pass


def _key(spec):
    return json.dumps(spec, sort_keys=True)


def seeds_of(pspec):
    out = {}
    for k in ("M", "N", "S"):
        v = pspec.get(k)
        out[k] = DEFAULT_SEEDS[k] if v is None else bytes.fromhex(v)
    return out


def model_group(gspec):
    k = _key(gspec)
    if k not in _model_groups:
        kind = gspec["kind"]
        if kind == "ed25519":
            G = mg.ed25519()
        elif kind in ("i1024", "i2048", "i3072"):
            G = mg.shipped_int(kind)
        elif kind == "int" and gspec.get("pwmap") == "alt":
            G = mg.MIntGroupAltPw(int(gspec["p"]), int(gspec["q"]), int(gspec["g"]))
        elif kind == "int":
            G = mg.MIntGroup(int(gspec["p"]), int(gspec["q"]), int(gspec["g"]))
        elif kind == "toyed":
            G = mg.toy_edwards(gspec["Q"], gspec["d"], gspec["L"])
            if G is None:
                raise ValueError("invalid toy curve %r" % (gspec,))
        else:
            raise ValueError(kind)
        _model_groups[k] = G
    return _model_groups[k]


def model_params(pspec):
    k = _key(pspec)
    if k not in _model_params:
        s = seeds_of(pspec)
        _model_params[k] = MParams(model_group(pspec["group"]), s["M"], s["N"], s["S"])
    return _model_params[k]


def _toy_lib_group(lib, gspec):
    """Run the library's own Edwards source on a toy curve: execute the module text into
    fresh module objects and replace the curve constants."""
    M = model_group(gspec)
    Q, d, L = gspec["Q"], gspec["d"], gspec["L"]
    try:
        edb = loader.exec_module_copy(lib, "ed25519_basic.py", "simspake_toy_edb_%d_%d" % (Q, d))
        needed = ["Q", "L", "d", "I", "B", "Base", "Zero", "_zero_bytes", "Element",
                  "_ZeroElement", "xform_affine_to_extended", "bytes_to_element"]
        for n in needed:
            if not hasattr(edb, n):
                raise ToyUnavailable("ed25519_basic lacks %s" % n)
        edb.Q = Q
        edb.L = L
        edb.d = d % Q
        edb.I = pow(2, (Q - 1) // 4, Q)
        edb.B = [M.base[0], M.base[1]]
        edb.Bx, edb.By = M.base
        edb.Base = edb.Element(edb.xform_affine_to_extended(edb.B))
        edb.Zero = edb._ZeroElement(edb.xform_affine_to_extended((0, 1)))
        edb._zero_bytes = edb.Zero.to_bytes()
        edg = loader.exec_module_copy(lib, "ed25519_group.py", "simspake_toy_edg_%d_%d" % (Q, d))
        edg.ed25519_basic = edb
        G = edg._Ed25519Group()
        G.Base = edb.Base
        G.Zero = edb.Zero
        G.scalar_size_bytes = 32
        G.element_size_bytes = 32
        # self-check of the instantiation: base has order L under the library's own code
        if edb.Base.to_bytes() != M.enc(M.base):
            raise ToyUnavailable("base encoding differs")
        if edb.Base.scalarmult(L) is not edb.Zero:
            raise ToyUnavailable("base*L is not Zero")
        if edb.Base.scalarmult(2).to_bytes() != M.enc(M.mul(M.base, 2)):
            raise ToyUnavailable("2*base differs")
        G._toy_module = edb
        return G
    except ToyUnavailable:
        raise
    except Exception as e:            # a refactor renamed something: skip, never a violation
        raise ToyUnavailable("%s: %s" % (type(e).__name__, e))


def lib_group(gspec, lib=None):
    lib = lib or loader.load()
    _lib_groups = lib._cache_groups
    k = _key(gspec)
    if k not in _lib_groups:
        kind = gspec["kind"]
        if kind == "ed25519":
            G = lib.shipped["ed25519"].group
        elif kind in ("i1024", "i2048", "i3072"):
            G = lib.shipped[kind].group
        elif kind == "int" and gspec.get("pwmap") == "alt":
            import hashlib as _h

            class AltPwGroup(lib.groups.IntegerGroup):
                def password_to_scalar(self, pw):
                    return int.from_bytes(_h.sha256(b"alt-kdf|" + pw).digest() * 4, "big") % self.q
            G = AltPwGroup(p=int(gspec["p"]), q=int(gspec["q"]), g=int(gspec["g"]))
        elif kind == "int":
            G = lib.groups.IntegerGroup(p=int(gspec["p"]), q=int(gspec["q"]), g=int(gspec["g"]))
        elif kind == "toyed":
            G = _toy_lib_group(lib, gspec)
        else:
            raise ValueError(kind)
        _lib_groups[k] = G
    return _lib_groups[k]


def lib_params(pspec, lib=None, cache=True):
    """cache=False: a parameter set built for one session and dropped with it (applications
    that build `_Params` per connection); the shipped singletons are always shared"""
    lib = lib or loader.load()
    _lib_params = lib._cache_params
    k = _key(pspec)
    kind = pspec["group"]["kind"]
    s = seeds_of(pspec)
    if kind in lib.shipped and s == DEFAULT_SEEDS:
        return lib.shipped[kind]
    if not cache:
        return _ephemeral_params(lib.params._Params, lib_group(pspec["group"], lib), s)
    if k not in _lib_params:
        _lib_params[k] = lib.params._Params(lib_group(pspec["group"], lib), M=s["M"], N=s["N"], S=s["S"])
    return _lib_params[k]


# Ephemeral parameter sets and object identity.  A memo keyed by id(params) that holds no reference
# goes wrong when a dead object's address is handed out again.  Whether CPython does that at a given
# moment depends on allocator history, which must not decide a run: a new ephemeral set is therefore
# placed ON the address of a dead one whenever the allocator still has that block free (ordinary
# construction - __new__ then __init__ - repeated until the wanted block comes up; the by-catch is
# released afterwards).  Only integers (addresses) of dead objects are remembered, never the objects.
_EPHEMERAL_LIVE = []     # [(weakref, address)]
_EPHEMERAL_DEAD = []     # addresses


_EPHEMERAL_RESERVED = []   # [(raw params object, [raw element objects])] sitting on a dead set's addresses


def is_ephemeral(obj):
    return any(wr() is obj for wr, _ in _EPHEMERAL_LIVE)


def _grab(cls, addr, tries=2000):
    """ask the allocator for objects of `cls` until the one at `addr` comes up (None if it does not)"""
    spare = []
    try:
        for _ in range(tries):
            o = object.__new__(cls)
            if id(o) == addr:
                return o
            spare.append(o)
    except TypeError:
        pass
    return None


def addresses_of(P):
    """(class, address) of an ephemeral parameter set and of the library objects it owns (M, N, S ...)"""
    owned = []
    for k, v in vars(P).items():
        t = type(v)
        if getattr(t, "__module__", "").startswith("spake2") and sys.getrefcount(v) <= 4:
            owned.append((t, id(v)))
    return (type(P), id(P)), owned


def reserve_dead_addresses(main, owned):
    """called by the executor right after a session that owned an ephemeral parameter set was dropped:
    take the freed blocks back from the allocator before anything else does"""
    o = _grab(*main)
    if o is None:
        return False
    elems = [_grab(t, a, 400) for t, a in owned]
    _EPHEMERAL_RESERVED.append((o, elems))
    del _EPHEMERAL_RESERVED[:-8]
    _EPHEMERAL_LIVE[:] = [(wr, a) for wr, a in _EPHEMERAL_LIVE if not (a == main[1] and wr() is None)]
    return True


def _ephemeral_params(cls, group, s):
    import gc
    import weakref
    while _EPHEMERAL_RESERVED:
        obj, elems = _EPHEMERAL_RESERVED.pop()
        if type(obj) is cls:
            # hand the owned objects' blocks back so that the constructor's first allocations receive
            # them in the order it creates them (the allocator serves the most recently freed first)
            for k in range(len(elems) - 1, -1, -1):
                elems[k] = None
            try:
                obj.__init__(group, M=s["M"], N=s["N"], S=s["S"])
            except TypeError:
                break
            _EPHEMERAL_LIVE.append((weakref.ref(obj), id(obj)))
            return obj
    gc.collect()
    still = []
    for wr, addr in _EPHEMERAL_LIVE:
        if wr() is None:
            _EPHEMERAL_DEAD.append(addr)
        else:
            still.append((wr, addr))
    _EPHEMERAL_LIVE[:] = still
    del _EPHEMERAL_DEAD[:-32]
    obj = None
    try:
        if _EPHEMERAL_DEAD:
            dead = set(_EPHEMERAL_DEAD)
            spare = []
            for _ in range(4000):
                o = cls.__new__(cls)
                if id(o) in dead:
                    obj = o
                    break
                spare.append(o)
            del spare
        if obj is None:
            obj = cls.__new__(cls)
        obj.__init__(group, M=s["M"], N=s["N"], S=s["S"])
    except TypeError:
        obj = cls(group, M=s["M"], N=s["N"], S=s["S"])
    if id(obj) in _EPHEMERAL_DEAD:
        _EPHEMERAL_DEAD.remove(id(obj))
    try:
        _EPHEMERAL_LIVE.append((weakref.ref(obj), id(obj)))
    except TypeError:
        pass
    return obj


def reset_caches():
    lib = loader.load()
    lib._cache_groups.clear()
    lib._cache_params.clear()


# generation of valid small integer groups ------------------------------------------

def gen_int_group(rng, qbits):
    """random valid (p, q, g): q prime of about qbits bits, p = r*q + 1 prime, g of order q"""
    while True:
        if qbits <= 2:
            q = rng.choice([2, 3])
        else:
            q = rng.randrange(1 << (qbits - 1), 1 << qbits) | 1
        if not mg.is_prime(q):
            continue
        # the cofactor's size varies too, so that p and q cross byte boundaries independently
        rbits = rng.choice([1, 2, 3, 4, 5, 6, 6, 7, 8, 9, 12, 15, 16, 17, 20])
        for _ in range(400):
            r = rng.randrange(1 << max(0, rbits - 1), 1 << rbits)
            if q != 2:
                r = (r // 2) * 2 or 2
            p = r * q + 1
            if mg.is_prime(p) and p > 2:
                break
        else:
            continue
        for _ in range(50):
            h = rng.randrange(2, p - 1) if p > 4 else 2
            g = pow(h, (p - 1) // q, p)
            if g != 1:
                return {"kind": "int", "p": str(p), "q": str(q), "g": str(g)}


# a few fixed larger custom groups (generated once with gen_big below and frozen)
def gen_big_group(rng, qbits, pbits):
    while True:
        q = rng.getrandbits(qbits) | (1 << (qbits - 1)) | 1
        if not mg.is_prime(q):
            continue
        for _ in range(4000):
            r = rng.getrandbits(pbits - qbits) | (1 << (pbits - qbits - 1))
            r &= ~1
            p = r * q + 1
            if p.bit_length() == pbits and mg.is_prime(p):
                while True:
                    h = rng.randrange(2, p - 1)
                    g = pow(h, (p - 1) // q, p)
                    if g != 1:
                        return {"kind": "int", "p": str(p), "q": str(q), "g": str(g)}


def other_generator(gspec, rng):
    """same (p,q), another generator of the same subgroup"""
    p, q, g = int(gspec["p"]), int(gspec["q"]), int(gspec["g"])
    if q <= 2:
        return None
    for _ in range(20):
        k = rng.randrange(2, q)
        g2 = pow(g, k, p)
        if g2 != g and g2 != 1:
            return {"kind": "int", "p": str(p), "q": str(q), "g": str(g2)}
    return None
