"""Model-vs-golden validation.  The reference model must reproduce the library's
published vectors and the frozen constants; a mismatch is a HARNESS error (exit 2),
never a violation."""
import hashlib
import json
import os

from .model import groups as mg
from .model.hkdf import hkdf_sha256
from .model.spec import SpecNode, MParams, parse_state_strict, H

ROOT = os.path.dirname(os.path.dirname(os.path.abspath(__file__)))
_done = {}


def golden():
    if "g" not in _done:
        with open(os.path.join(ROOT, "golden", "vectors.json")) as f:
            _done["g"] = json.load(f)
    return _done["g"]


def _prg(seed):
    def block():
        c = 0
        while True:
            blk = hashlib.sha256(b"prng-" + str(c).encode() + b"-" + seed).digest()
            for i in range(32):
                yield blk[i:i + 1]
            c += 1
    gen = block()
    return lambda n: b"".join(next(gen) for _ in range(n))


def _group(name):
    name = name.lower()
    return mg.ed25519() if name == "ed25519" else mg.shipped_int(name)


def model_vs_golden():
    if "res" in _done:
        return _done["res"]
    try:
        res = _check()
    except Exception as e:         # noqa
        res = "exception %r" % (e,)
    _done["res"] = res
    return res


def _check():
    G = golden()
    for v in G["hkdf"]:
        out = hkdf_sha256(bytes.fromhex(v["IKM"]), v["L"], bytes.fromhex(v["salt"]), bytes.fromhex(v["info"]))
        if out.hex() != v["OKM"]:
            return "hkdf vector"
    groups = {n: _group(n) for n in ("ed25519", "i1024", "i2048", "i3072")}
    for v in G["p2s"]:
        g = groups[v["group"].lower()]
        if g.enc_scalar(g.pw_scalar(bytes.fromhex(v["pw_hex"]))).hex() != v["bytes_hex"]:
            return "password_to_scalar vector %s" % v["group"]
    for v in G["s2b"]:
        g = groups[v["group"].lower()]
        if g.enc_scalar(v["scalar"]).hex() != v["bytes_hex"]:
            return "scalar_to_bytes vector"
    for v in G["ae"]:
        g = groups[v["group"].lower()]
        if g.enc(g.arbitrary(bytes.fromhex(v["seed_hex"]))).hex() != v["element_hex"]:
            return "arbitrary_element vector %s" % v["group"]
    params = {}
    for name, c in G["constants"].items():
        g = groups[name]
        P = MParams(g)
        params[name] = P
        if (g.enc(P.M).hex(), g.enc(P.N).hex(), g.enc(P.S).hex()) != (c["M"], c["N"], c["S"]):
            return "M/N/S of %s" % name
        if g.enc(g.base).hex() != c["Base"] or g.elem_size != c["elem_size"] or g.scalar_size != c["scalar_size"]:
            return "constants of %s" % name
        if str(g.q) != c["order"]:
            return "order of %s" % name
    f = G["finalize"]
    a = [x.encode() for x in f[0]["args"]]
    if H(H(a[5]) + H(a[0]) + H(a[1]) + a[2] + a[3] + a[4]).hex() != f[0]["key"]:
        return "finalize vector"
    P = params["ed25519"]
    for v in G["e2e"]:
        c1, c2 = ("A", "B") if v["kind"] == "AB" else ("S", "S")
        n1, n2 = SpecNode(c1, v["pw"].encode(), params=P), SpecNode(c2, v["pw"].encode(), params=P)
        x1 = int.from_bytes(_prg(v["prgA"].encode())(64), "big") % P.group.q
        x2 = int.from_bytes(_prg(v["prgB"].encode())(64), "big") % P.group.q
        if "x1" in v and (str(x1), str(x2)) != (v["x1"], v["x2"]):
            return "e2e scalars"
        m1, m2 = n1.start(x1), n2.start(x2)
        if (m1.hex(), m2.hex()) != (v["m1"], v["m2"]):
            return "e2e messages"
        if n1.finish(m2).hex() != v["key"] or n2.finish(m1).hex() != v["key"]:
            return "e2e key"
    for b in G["blobs"]:
        node = parse_state_strict(b["blob"].encode("ascii"), b["cls"], params[b["set"]])
        if (SIDE_BYTE[b["cls"]] + node.out).hex() != b["out"]:
            return "golden blob out %s/%s" % (b["set"], b["cls"])
        if node.finish(bytes.fromhex(b["peer_msg"])).hex() != b["key"]:
            return "golden blob key %s/%s" % (b["set"], b["cls"])
    return None


SIDE_BYTE = {"A": b"A", "B": b"B", "S": b"S"}
