"""The entropy seam: objects passed as `entropy_f`.  Every byte a session may call
random comes from here, decided by the scenario; every request is recorded."""
import hashlib


class EntropyFailure(OSError):
    pass


class EntropySource:
    """spec: {"mode": ..., "seed": int, "v": str(int), "k": int, "q": str(int)}

    modes
      uniform        SHA-256 counter stream keyed by seed
      zeros / ones   constant bytes
      counter        0,1,2,... as big-endian integers of the requested width (stuck RNG)
      target         the integer v as big-endian of the requested width, then uniform
      boundary       integers q, q+1, 2^(8n)-1, q-1 (masked-width aware: uses requested width)
      redraws        k answers of 0xff.. (rejected by any sampler whose range is not the full
                     width), then uniform
      fail           raises EntropyFailure (a drained os.urandom)
      script         answers given explicitly as hex strings ("answers"), then zeros
    """

    def __init__(self, spec):
        self.spec = spec or {"mode": "uniform", "seed": 0}
        self.mode = self.spec.get("mode", "uniform")
        self.calls = []          # (n, bytes)
        self._ctr = 0
        self._i = 0
        self.active = None       # set by the executor: name of the API call in progress
        self.by_call = {}        # api-call name -> bytes requested
        self.exhausted = False
        self.hook = None         # one-shot callback run inside the next draw (re-entrancy seam)

    def _uniform(self, n):
        out = b""
        seed = str(self.spec.get("seed", 0)).encode()
        while len(out) < n:
            out += hashlib.sha256(b"entropy|" + seed + b"|" + str(self._ctr).encode()).digest()
            self._ctr += 1
        return out[:n]

    DRAW_CAP = 4096      # a correct sampler (acceptance >= 1/2) never needs this many draws

    def __call__(self, n):
        h = self.hook
        if h is not None:
            self.hook = None
            h()
        i = self._i
        self._i += 1
        if i >= self.DRAW_CAP:
            self.exhausted = True
            raise EntropyFailure("more than %d draws in one session: the sampler does not terminate" % self.DRAW_CAP)
        m = self.mode
        if m == "fail":
            self.calls.append((n, None))
            self.by_call[self.active] = self.by_call.get(self.active, 0) + n
            raise EntropyFailure("entropy source drained")
        if m == "zeros":
            b = b"\x00" * n
        elif m == "ones":
            b = b"\xff" * n
        elif m == "counter":
            b = (i % (1 << (8 * n))).to_bytes(n, "big") if n else b""
        elif m == "target":
            if i == 0:
                v = int(self.spec.get("v", "0"))
                b = (v % (1 << (8 * n))).to_bytes(n, "big") if n else b""
            else:
                b = self._uniform(n)
        elif m == "boundary":
            q = int(self.spec.get("q", "0"))
            seq = [q, q + 1, (1 << (8 * n)) - 1, q - 1]
            if i < len(seq):
                b = (seq[i] % (1 << (8 * n))).to_bytes(n, "big") if n else b""
            else:
                b = self._uniform(n)
        elif m == "redraws":
            if i < int(self.spec.get("k", 1)):
                b = b"\xff" * n
            else:
                b = self._uniform(n)
        elif m == "script":
            ans = self.spec.get("answers", [])
            if i < len(ans):
                b = bytes.fromhex(ans[i])
                b = (b + b"\x00" * n)[:n]
            else:
                b = b"\x00" * n
        else:
            b = self._uniform(n)
        self.calls.append((n, b))
        self.by_call[self.active] = self.by_call.get(self.active, 0) + n
        return b

    @property
    def total(self):
        return sum(n for n, _ in self.calls)


class FalsyEntropySource(EntropySource):
    """an entropy object that is callable but falsy (a lazily filled pool reporting len() == 0)"""

    def __len__(self):
        return 0


def make_entropy(spec):
    if spec and spec.get("falsy"):
        return FalsyEntropySource(spec)
    return EntropySource(spec)
