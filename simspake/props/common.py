"""helpers shared by the per-property generators and oracles"""
from .. import worlds


class Hooks:
    """base oracle: collects findings on the world"""
    prop = "C00"

    def after_step(self, w, step, ev):
        pass

    def finish(self, w):
        pass

    def flag(self, w, clause, msg, **sig):
        s = {"property": self.prop, "clause": clause}
        s.update(sig)
        w.findings.append({"sig": s, "msg": msg})


def group_kind(w, pset=0):
    return w.psets[pset]["group"]["kind"]


def group_family(w, pset=0):
    k = group_kind(w, pset)
    return "ed" if k in ("ed25519", "toyed") else "int"


def insert_positions(steps, need_started, need_alive):
    """indices i such that after executing steps[:i] every node in need_started has
    started and every node in need_alive has a live instance"""
    started, alive = set(), set()
    ok = []
    for i in range(len(steps) + 1):
        if all(n in started for n in need_started) and all(n in alive for n in need_alive):
            ok.append(i)
        if i < len(steps):
            s = steps[i]
            if s["op"] == "boot":
                alive.add(s["n"])
            elif s["op"] == "start":
                started.add(s["n"])
            elif s["op"] == "crash":
                alive.discard(s["n"])
            elif s["op"] == "reboot":
                # nodes are placed one per host in scenarios that reboot: host h == node h
                alive.discard(s.get("host", 0))
            elif s["op"] == "recover":
                alive.add(s["n"])
    return ok


def place(rng, steps, new, need_started, need_alive, after=0):
    pos = [i for i in insert_positions(steps, need_started, need_alive) if i >= after]
    if not pos:
        steps.append(new)
        return len(steps) - 1
    # bias towards "right after the precondition became true" and "at the very end"
    r = rng.random()
    if r < 0.25:
        i = pos[0]
    elif r < 0.4:
        i = pos[-1]
    else:
        i = rng.choice(pos)
    steps.insert(i, new)
    return i


def body_of(msg):
    return msg[1:] if isinstance(msg, bytes) else None


def identity_bytes(w, pset=0):
    g = worlds.model_group(w.psets[pset]["group"])
    return g.enc(g.identity)
