"""C16 - sessions are pure and isolated under any interleaving (one thread or many).

Every run:
  1. a forked child of the pristine worker executes the world under schedule A and then, in
     the same (now used) process, under schedule B - cooperative interleaving of API calls,
     or one real thread per node under the baton scheduler with PRNG-chosen pre-emption at
     line events inside library frames;
  2. every session is re-executed ALONE, each in its own freshly forked child of the pristine
     worker, with the same constructor arguments, the same entropy bytes and the same inbound
     bytes;
  3. message and key of every session must be identical in A, B and isolation, and the
     encodings/constants of all shared group and parameter objects identical before and after."""
import copy
import hashlib
import json
import os
import random
import select
import signal
import sys
import time

from .. import gen, faults, sim, worlds, loader
from ..threads import BatonScheduler
from .common import Hooks

PROP = "C16"
SHADOW = False
EXPECT_PROBES = ["mode:coop", "mode:threads", "sessions>=4", "shared-pset-different-roles",
                 "custom-params-over-shared-group", "preempted", "thread-switches"]
CELLS_RULE = "(mode, number of sessions, number of parameter sets, group kinds)"
RULE = ("one evaluation = one simulated world of 2-8 concurrently running sessions executed under two schedules "
        "(cooperative API-call interleavings, or real threads under the baton scheduler with PRNG-chosen pre-emption "
        "at line events in library frames) plus one isolated re-execution per session in a freshly forked pristine "
        "process; distinct = distinct (mode, roles, group kinds, op sequence) shape; non-trivial = at least one "
        "session finished in both the interleaved and the isolated execution")
ASSUMPTIONS = ["pre-emption granularity is one Python line inside spake2 frames; races inside a single bytecode or "
               "inside C extensions (cryptography) are not explored"]


# ------------------------------------------------------------------------------------------
# generation
# ------------------------------------------------------------------------------------------

def generate(rng, tier="quick"):
    mode = "threads" if rng.random() < 0.35 else "coop"
    npairs = rng.choice([1, 1, 2, 2, 2, 3, 3, 4])
    mix = [("ed25519", 22), ("i1024", 18), ("i2048", 4), ("i3072", 2), ("small", 30), ("medium", 10), ("toyed", 14)]
    if mode == "threads":
        mix = [("ed25519", 14), ("i1024", 25), ("i2048", 3), ("small", 34), ("medium", 10), ("toyed", 14)]
    psets = []
    base_groups = []
    for _ in range(rng.choice([1, 1, 2, 3])):
        while True:
            g = gen.gen_group(rng, mix)
            if gen.usable_pspec({"group": g}):
                base_groups.append(g)
                break
    nodes = []
    lanes = []
    family = gen.near_family(rng, 2 * npairs + 1) if rng.random() < 0.1 else None
    for p in range(npairs):
        # parameter set: often the shared one, sometimes custom seeds over the SAME group object
        g = rng.choice(base_groups)
        ps = {"group": g}
        if rng.random() < 0.4:
            ps = gen.gen_seeds(rng, dict(ps))
            if not gen.usable_pspec(ps):
                ps = {"group": g}
        if ps in psets:
            pi = psets.index(ps)
        else:
            psets.append(ps)
            pi = len(psets) - 1
        flavour = rng.choice(["AB", "AB", "S"])
        pw = gen.gen_bytes(rng)
        ida, idb = gen.gen_ids(rng)
        ids = gen.gen_bytes(rng)
        if family:
            # different sessions use different, but look-alike, large identities
            ida, idb, ids = family[2 * p], family[2 * p + 1], family[2 * p]
        pair = []
        for cls in (("A", "B") if flavour == "AB" else ("S", "S")):
            nd = {"cls": cls, "pw": pw.hex(), "pset": pi, "entropy": gen.gen_entropy(rng, g, 0.15)}
            if rng.random() < 0.15:
                nd["pw"] = gen.gen_bytes(rng).hex()           # mismatching sessions are sessions too
            if cls == "S":
                nd["idS"] = ids.hex()
            else:
                nd["idA"], nd["idB"] = ida.hex(), idb.hex()
            nodes.append(nd)
            pair.append(len(nodes) - 1)
        for me, peer in ((pair[0], pair[1]), (pair[1], pair[0])):
            lane = gen.gen_lifecycle(rng, me, 2, rng.choice([0.0, 0.0, 0.4]))
            d = {"op": "deliver", "src": peer, "dst": me}
            if rng.random() < 0.12:
                d["fault"] = rng.choice([{"kind": "replace", "k": rng.randrange(2 * npairs)},
                                         {"kind": "reflect", "label": None},
                                         {"kind": "bitflip", "i": rng.randrange(8, 64)}])
            lane.append(d)
            if rng.random() < 0.2:
                lane.append({"op": "serialize", "n": me})
            lanes.append(lane)
    steps = gen.interleave(rng, lanes)
    if mode == "coop" and npairs == 1 and rng.random() < 0.6:
        # two sessions, three calls each: walk ALL 20 interleavings along the run index
        import itertools
        l0 = [{"op": "boot", "n": 0}, {"op": "start", "n": 0}, {"op": "deliver", "src": 1, "dst": 0}]
        l1 = [{"op": "boot", "n": 1}, {"op": "start", "n": 1}, {"op": "deliver", "src": 0, "dst": 1}]
        combos = list(itertools.combinations(range(6), 3))
        pos0 = set(combos[getattr(rng, "idx", 0) % len(combos)])
        steps, i0, i1 = [], 0, 0
        for k in range(6):
            if k in pos0:
                steps.append(l0[i0]); i0 += 1
            else:
                steps.append(l1[i1]); i1 += 1
    scn = {"property": PROP, "config": {"psets": psets, "nodes": nodes}, "steps": steps,
           "mode": mode, "sched_seed": rng.randrange(1 << 30)}
    if rng.random() < 0.12:
        # applications that build their parameter sets per connection: every session owns a private
        # _Params object that dies with its instance (addresses are handed out again)
        scn["config"]["ephemeral_params"] = True
    if mode == "coop" and rng.random() < 0.15:
        nest_calls(rng, scn)
    if mode == "coop" and rng.random() < 0.15:
        # fault: one or two sessions have a library call aborted at an arbitrary instant (injected
        # MemoryError / KeyboardInterrupt).  The aborted sessions are neighbours only - nothing is
        # demanded of them afterwards -; every OTHER session and the shared objects are judged as usual.
        ab = sorted(rng.sample(range(len(nodes)), rng.choice([1, 1, 2]) if len(nodes) > 2 else 1))
        new = []
        for st in scn["steps"]:
            o = owner(st)
            if o in ab and st["op"] in ("start", "deliver", "serialize", "persist", "recover") and rng.random() < 0.5 \
                    and not st.get("nested"):
                st = dict(st, interrupt=gen.gen_interrupt(rng))
            new.append(st)
        scn["steps"] = new
        scn["aborted_nodes"] = ab
    if mode == "threads":
        scn["mean_gap"] = rng.choice([5, 20, 50, 200, 500, 5000, 0])
        scn["max_preempt"] = 40
        kinds = set(p["group"]["kind"] for p in psets)
        big = 40000 if "ed25519" in kinds else 3000
        scn["long_jump"] = rng.choice([0, big, big])
        if rng.random() < 0.6:
            scn["site_targets"] = rng.choice([3, 6, 12])
            scn["run_long"] = rng.choice([0, 300, 3000, 100000])
    return scn


def nest_calls(rng, scn):
    """interleaving at the entropy seam: the start() (and possibly following calls) of another session
    runs INSIDE the entropy read of a session's start() - same thread, nested call stacks"""
    steps = scn["steps"]
    pos = {}
    for i, st in enumerate(steps):
        if st["op"] in ("boot", "start") and "n" in st:
            pos.setdefault((st["op"], st["n"]), i)
    cands = []
    for (op, i), si in pos.items():
        if op != "start":
            continue
        for (op2, j), sj in pos.items():
            if op2 == "start" and j != i and sj > si and pos.get(("boot", j), 1 << 30) < si:
                cands.append((i, j))
    if not cands:
        return
    cands.sort()
    i, j = cands[rng.randrange(len(cands))]
    si, sj = pos[("start", i)], pos[("start", j)]
    inner = [steps[sj]]
    take = rng.choice([0, 0, 1, 2])
    k = sj + 1
    drop = [sj]
    while take and k < len(steps):
        st = steps[k]
        if owner(st) == j and st["op"] in ("serialize", "persist", "crash", "recover"):
            inner.append(st)
            drop.append(k)
            take -= 1
        elif owner(st) == j:
            break
        k += 1
    new = [st for t, st in enumerate(steps) if t not in drop]
    new[si] = dict(new[si], nested=inner)
    scn["steps"] = new
    scn["fixed_order"] = True           # schedule B = the same order again, in the now-used process


def flat_steps(steps):
    out = []
    for st in steps:
        if st.get("nested"):
            st2 = {k: v for k, v in st.items() if k != "nested"}
            out.append(st2)
            out.extend(st["nested"])
        else:
            out.append(st)
    return out


# ------------------------------------------------------------------------------------------
# execution helpers
# ------------------------------------------------------------------------------------------

def owner(step):
    return step.get("n", step.get("dst"))


def lanes_of(steps, nnodes):
    lanes = {i: [] for i in range(nnodes)}
    for s in steps:
        o = owner(s)
        if o in lanes:
            lanes[o].append(s)
    return lanes


def ready(world, step):
    if step["op"] == "deliver":
        src = world.nodes[step["src"]]
        return src.out is not None
    return True


def run_coop(config, steps, order_seed=None):
    """schedule A: the flat order as given; schedule B: a PRNG re-merge of the per-session
    lanes that respects message availability"""
    w = sim.World(config, shadow=False)
    w.scn = {"config": config}
    if order_seed is None:
        pending = list(steps)
        # a deliver whose message does not exist yet is retried after other steps ran
        deferred = []
        for s in pending:
            if not ready(w, s):
                deferred.append(s)
                continue
            w.apply(s)
            still = []
            for d in deferred:
                if ready(w, d):
                    w.apply(d)
                else:
                    still.append(d)
            deferred = still
        for d in deferred:
            w.apply(d)          # logged as skip
        return w
    rng = random.Random(order_seed)
    lanes = lanes_of(steps, len(w.nodes))
    pos = {i: 0 for i in lanes}
    while True:
        live = [i for i in lanes if pos[i] < len(lanes[i])]
        if not live:
            break
        can = [i for i in live if ready(w, lanes[i][pos[i]])]
        if not can:
            i = live[0]          # the message will never come: executes as a skip
        else:
            i = can[rng.randrange(len(can))]
        w.apply(lanes[i][pos[i]])
        pos[i] += 1
    return w


def pick_targets(rng, sites, per_thread):
    """site-targeted pre-emption plan from the sites a previous schedule of the same world
    recorded: uniformly over source lines, occurrence index biased to the first hits"""
    targets = {}
    for tid in sorted(sites):
        keys = sorted(sites[tid])
        if not keys:
            continue
        tg = set()
        for _ in range(per_thread):
            site = keys[rng.randrange(len(keys))]
            hits = sites[tid][site]
            r = rng.random()
            k = 1 if r < 0.4 else 2 if r < 0.55 else hits if r < 0.65 else rng.randrange(1, hits + 1)
            tg.add((site, k))
        targets[tid] = tg
    return targets


def run_threads(config, steps, sched_seed, mean_gap, max_preempt, long_jump=0, record_sites=False,
                targets=None, run_long=0):
    lib = loader.load()
    w = sim.World(config, shadow=False)
    w.scn = {"config": config}
    lanes = lanes_of(steps, len(w.nodes))
    rng = random.Random(sched_seed)
    sched = BatonScheduler(rng, mean_gap, max_preempt, os.path.join(lib.src, "spake2") + os.sep, long_jump,
                           record_sites=record_sites, targets=targets, run_long=run_long)

    def body_for(i):
        def body(s, tid):
            for st in lanes[i]:
                if st["op"] == "deliver":
                    src = w.nodes[st["src"]]
                    s.wait_for(tid, lambda: src.out is not None)
                w.apply(st)
                s.yield_(tid)              # API-call boundary is always a scheduling point
        return body
    old = sys.getswitchinterval()
    sched.run({i: body_for(i) for i in lanes if lanes[i]})
    w.sites = sched.sites
    w.sched_stats = {"switches": sched.switches, "line_events": sched.line_events,
                     "preempts": sum(sched.preempts.values()), "site_hits": sched.site_hits,
                     "distinct_sites": len(set(k for t in sched.sites.values() for k in t)),
                     "holders": hashlib.sha256(repr(sched.trace_log).encode()).hexdigest()[:12]}
    return w


def node_record(w, i):
    n = w.nodes[i]
    fins = []
    wires = []
    for e in w.events:
        if e["op"] in ("deliver", "craft") and e["n"] == i and e["out"] != "skip":
            fins.append([e["out"], e["key"].hex() if e["out"] == "key" else ""])
            wires.append(e["wire"].hex())
    blobs = [hashlib.sha256(e["blob"]).hexdigest()[:16] for e in w.events
             if e["op"] in ("persist", "serialize") and e["n"] == i and e["out"] == "blob"]
    starts = [e["out"] for e in w.events if e["op"] == "start" and e["n"] == i]
    recs = [e["out"] for e in w.events if e["op"] == "recover" and e["n"] == i and e["out"] != "skip"]
    return {"out": n.out.hex() if isinstance(n.out, bytes) else None, "fins": fins, "wires": wires,
            "blobs": blobs, "starts": starts, "recovers": recs,
            "entropy": hashlib.sha256(repr([(c[0], c[1]) for c in n.entropy.calls]).encode()).hexdigest()[:12]}


def _digest_value(v, depth=0):
    """stable description of an attribute value of a shared object"""
    if isinstance(v, (int, str, bytes, bool, type(None), float)):
        return repr(v)
    if depth > 3:
        return "<" + type(v).__name__ + ">"
    if isinstance(v, (tuple, list)):
        return type(v).__name__ + "[" + ",".join(_digest_value(x, depth + 1) for x in v) + "]"
    if isinstance(v, dict):
        try:
            items = sorted(v.items(), key=lambda kv: repr(kv[0]))
        except Exception:
            items = list(v.items())
        return "dict{" + ",".join(repr(k) + ":" + _digest_value(x, depth + 1) for k, x in items) + "}"
    if isinstance(v, (set, frozenset)):
        return "set{" + ",".join(sorted(_digest_value(x, depth + 1) for x in v)) + "}"
    tb = getattr(v, "to_bytes", None)
    if callable(tb) and not isinstance(v, int):
        try:
            return type(v).__name__ + ":" + tb().hex()
        except Exception:
            return "<" + type(v).__name__ + ">"
    return "<" + type(v).__name__ + ">"


def attr_snapshot(obj):
    d = getattr(obj, "__dict__", None)
    if d is None:
        return []
    return sorted((k, _digest_value(v)) for k, v in d.items())


def module_snapshot(mod):
    """module-level data (not functions / classes / modules) of a library module"""
    import types
    out = []
    for k, v in sorted(mod.__dict__.items()):
        if k.startswith("__") or isinstance(v, (types.FunctionType, types.ModuleType, type, types.BuiltinFunctionType)):
            continue
        out.append((k, _digest_value(v)))
    return out


def shared_snapshot(config):
    """encodings and constants of every shared object the world's sessions use"""
    lib = loader.load()
    out = []
    for ps in config["psets"]:
        P = worlds.lib_params(ps)
        G = P.group
        row = [P.M.to_bytes().hex(), P.N.to_bytes().hex(), P.S.to_bytes().hex(),
               G.Base.to_bytes().hex(), G.Zero.to_bytes().hex(),
               repr(getattr(P, "M_str", None)), repr(getattr(P, "N_str", None)), repr(getattr(P, "S_str", None))]
        for attr in ("p", "q", "element_size_bytes", "scalar_size_bytes", "element_size_bits"):
            row.append(repr(getattr(G, attr, None)))
        row.append(repr(G.order()))
        mod = getattr(G, "_toy_module", None) or (lib.edb if ps["group"]["kind"] == "ed25519" else None)
        if mod is not None:
            for attr in ("Q", "L", "d", "I", "B"):
                row.append(repr(getattr(mod, attr, None)))
            row.append(repr(getattr(mod.Base, "XYTZ", None)))
            row.append(repr(getattr(mod.Zero, "XYTZ", None)))
        # every attribute of the shared parameter-set and group objects (new memo attributes included)
        row.append(repr(attr_snapshot(P)))
        row.append(repr(attr_snapshot(G)))
        out.append(row)
        if getattr(G, "_toy_module", None) is not None:
            out.append(["module:toy:%s" % (ps["group"],), repr(module_snapshot(G._toy_module))])
    # module-level data of the library modules (tables, memos, status flags live here)
    for name, mod in sorted(lib.modules.items()):
        if ".test" in name:
            continue
        out.append(["module:" + name, repr(module_snapshot(mod))])
    return out


def in_child(fn, timeout=240):
    """run fn() in a forked child of this (pristine) process; returns its JSON-able result"""
    r, wfd = os.pipe()
    pid = os.fork()
    if pid == 0:
        try:
            os.close(r)
            try:
                res = {"ok": fn()}
            except worlds.ToyUnavailable as e:
                res = {"toy": str(e)}
            except BaseException as e:          # noqa
                import traceback
                res = {"err": traceback.format_exc()[-2000:]}
            data = json.dumps(res).encode()
            with os.fdopen(wfd, "wb") as f:
                f.write(data)
        finally:
            os._exit(0)
    os.close(wfd)
    chunks = []
    deadline = time.time() + timeout
    with os.fdopen(r, "rb") as f:
        while True:
            left = deadline - time.time()
            if left <= 0:
                os.kill(pid, signal.SIGKILL)
                os.waitpid(pid, 0)
                raise RuntimeError("child timed out")
            rd, _, _ = select.select([f], [], [], min(left, 5))
            if rd:
                b = os.read(f.fileno(), 1 << 16)
                if not b:
                    break
                chunks.append(b)
    os.waitpid(pid, 0)
    data = b"".join(chunks)
    if not data:
        raise RuntimeError("child died without a result")
    res = json.loads(data.decode())
    if "toy" in res:
        raise worlds.ToyUnavailable(res["toy"])
    if "err" in res:
        raise RuntimeError("child failed: " + res["err"])
    return res["ok"]


def interleaved_job(scn):
    def job():
        cfg, steps = scn["config"], scn["steps"]
        before = shared_snapshot(cfg)
        if scn.get("mode") == "threads":
            targeted = scn.get("site_targets", 0)
            wa = run_threads(cfg, steps, scn["sched_seed"], scn.get("mean_gap", 200), scn.get("max_preempt", 40),
                             scn.get("long_jump", 0), record_sites=bool(targeted))
            if targeted:
                # schedule B pre-empts at source lines chosen uniformly among those schedule A executed,
                # and lets the thread that takes over run long
                trng = random.Random(scn["sched_seed"] + 7)
                wb = run_threads(cfg, steps, scn["sched_seed"] + 1, 0, scn.get("max_preempt", 40), 0,
                                 targets=pick_targets(trng, wa.sites, targeted), run_long=scn.get("run_long", 0))
            else:
                wb = run_threads(cfg, steps, scn["sched_seed"] + 1, scn.get("mean_gap", 200),
                                 scn.get("max_preempt", 40), scn.get("long_jump", 0))
        else:
            wa = run_coop(cfg, steps)
            wb = run_coop(cfg, steps, None if scn.get("fixed_order") else scn["sched_seed"])
        after = shared_snapshot(cfg)
        nn = len(cfg["nodes"])
        return {"A": [node_record(wa, i) for i in range(nn)], "B": [node_record(wb, i) for i in range(nn)],
                "before": before, "after": after,
                "evA": [[e["op"], e["n"], e["out"], e["d"]] for e in wa.events], "digA": sim.log_digest(wa), "digB": sim.log_digest(wb),
                "ticks": wa.tick + wb.tick, "skipped": wa.skipped + wb.skipped,
                "fired": {k: wa.fired.get(k, 0) + wb.fired.get(k, 0) for k in sorted(set(wa.fired) | set(wb.fired))},
                "stats": [getattr(wa, "sched_stats", None), getattr(wb, "sched_stats", None)]}
    return job


def isolated_job(scn, i, wires):
    def job():
        cfg = {"psets": scn["config"]["psets"], "nodes": [copy.deepcopy(scn["config"]["nodes"][i])]}
        steps = []
        k = 0
        for s in flat_steps(scn["steps"]):
            if owner(s) != i:
                continue
            s = dict(s)
            if s["op"] == "deliver":
                if k >= len(wires):
                    continue
                steps.append({"op": "craft", "dst": 0, "label": None, "body": {"kind": "hex", "hex": wires[k]}})
                k += 1
            else:
                s["n"] = 0
                steps.append(s)
        w = sim.World(cfg, shadow=False)
        for s in steps:
            w.apply(s)
        return node_record(w, 0)
    return job


class Result:
    """world-like object the runner understands"""

    def __init__(self, scn):
        self.scn = scn
        self.events, self.findings, self.fired, self.probes = [], [], {}, {}
        self.tick, self.skipped = 0, 0
        self.nontrivial = False
        self.cells = set()

    def probe(self, k, n=1):
        self.probes[k] = self.probes.get(k, 0) + n

    def flag(self, clause, msg, **sig):
        s = {"property": PROP, "clause": clause}
        s.update(sig)
        self.findings.append({"sig": s, "msg": msg})


def execute(scn):
    R = Result(scn)
    mode = scn.get("mode", "coop")
    cfg = scn["config"]
    res = in_child(interleaved_job(scn))
    R.tick, R.skipped = res["ticks"], res["skipped"]
    R.fired = dict(res.get("fired") or {})
    nn = len(cfg["nodes"])
    R.probe("mode:" + mode)
    if nn >= 4:
        R.probe("sessions>=4")
    used = {}
    for nd in cfg["nodes"]:
        used.setdefault(nd["pset"], set()).add(nd["cls"])
    if any(len(v) > 1 for v in used.values()):
        R.probe("shared-pset-different-roles")
    groups = [json.dumps(p["group"], sort_keys=True) for p in cfg["psets"]]
    if len(set(groups)) < len(groups):
        R.probe("custom-params-over-shared-group")
    for st in res["stats"]:
        if st:
            if st["preempts"]:
                R.probe("preempted", st["preempts"])
            R.probe("thread-switches", st["switches"])
            R.probe("line-events", st["line_events"])
            if st.get("site_hits"):
                R.probe("site-targeted-preemptions", st["site_hits"])
    R.cells.add("%s|n=%d|p=%d|%s" % (mode, nn, len(cfg["psets"]), ",".join(sorted(set(p["group"]["kind"] for p in cfg["psets"])))))
    # event log of the run = schedule A's log + per-session comparison lines
    for i, (op, n, out, d) in enumerate(res["evA"]):
        R.events.append({"i": i, "op": op, "n": n, "out": out, "d": d})
    R.events.append({"i": len(R.events), "op": "schedB", "n": None, "out": "done", "d": res["digB"]})
    if res["before"] != res["after"]:
        diffs = [pi for pi, (b, a) in enumerate(zip(res["before"], res["after"])) if a != b]
        objs = [pi for pi in diffs if not (res["before"][pi] and str(res["before"][pi][0]).startswith("module:"))]
        if objs:
            R.flag("shared-object-modified", "running sessions changed a shared group / parameter-set object "
                   "(parameter set(s) %s: encodings, constants or attributes differ before/after)" % objs, mode=mode)
        if len(objs) != len(diffs):
            # module-level data changed (a memo, a table): not what the property forbids by itself;
            # counted so that a reader of the evidence sees it
            R.probe("module-level-data-changed")
    aborted = set(scn.get("aborted_nodes") or [])
    if aborted:
        R.probe("aborted-neighbour-sessions", len(aborted))
    for i in range(nn):
        if i in aborted:
            continue            # a session the simulator aborted midway: a neighbour, not judged
        a, b = res["A"][i], res["B"][i]
        iso = in_child(isolated_job(scn, i, a["wires"]))
        cls = cfg["nodes"][i]["cls"]
        gk = cfg["psets"][cfg["nodes"][i]["pset"]]["group"]["kind"]
        R.events.append({"i": len(R.events), "op": "cmp", "n": i,
                         "out": "same" if (a["out"], a["fins"]) == (iso["out"], iso["fins"]) else "DIFF",
                         "d": hashlib.sha256(json.dumps([a["out"], a["fins"]]).encode()).hexdigest()[:10]})
        if a["fins"] and iso["fins"]:
            R.nontrivial = True
        for name, x in (("A", a), ("B", b)):
            if name == "B" and x["wires"] != a["wires"]:
                iso_x = in_child(isolated_job(scn, i, x["wires"]))
            else:
                iso_x = iso
            if x["out"] != iso_x["out"]:
                R.flag("message-differs-from-isolated",
                       "session %d (%s, %s): start() message under the %s schedule %s differs from the same session run alone"
                       % (i, cls, gk, mode, name), mode=mode, what="message")
                break
            if x["fins"] != iso_x["fins"]:
                R.flag("key-differs-from-isolated",
                       "session %d (%s, %s): finish() outcome under the %s schedule %s (%s) differs from the same session "
                       "run alone (%s)" % (i, cls, gk, mode, name, [f[0] for f in x["fins"]], [f[0] for f in iso_x["fins"]]),
                       mode=mode, what="key")
                break
            if x["blobs"] != iso_x["blobs"] or x["recovers"] != iso_x["recovers"] or x["starts"] != iso_x["starts"]:
                R.flag("state-differs-from-isolated",
                       "session %d (%s, %s): serialize()/from_serialized()/start() outcomes under schedule %s differ from "
                       "the same session run alone" % (i, cls, gk, name), mode=mode, what="state")
                break
        if a["out"] != b["out"] or (a["wires"] == b["wires"] and a["fins"] != b["fins"]):
            R.flag("schedule-dependent", "session %d (%s, %s): outputs differ between two schedules of the same world"
                   % (i, cls, gk), mode=mode)
    return R
