"""C03 - messages and keys conform to the published SPAKE2 definition (refinement against
the reference model, step by step, on every node of every run)."""
import copy

from .. import gen, faults, worlds
from .common import Hooks, place, group_kind
from ..model.spec import SpecError

PROP = "C03"
SHADOW = True
EXPECT_PROBES = ["start-conforms", "key-conforms", "key-conforms-restored", "reflection-conforms",
                 "model-peer", "wellformed-substitute"]
ASSUMPTIONS = ["the reference model (simspake/model, anchored to the library's published vectors and to frozen "
               "constants of the released wire format) is the definition of conformance"]

WELLFORMED = ["substitute", "reflect", "replace", None, None, None]


def generate(rng, tier="quick"):
    cfg = gen.gen_base_config(rng, entropy_edge=0.3)
    esize = worlds.model_group(cfg["psets"][0]["group"]).elem_size
    # sometimes the two ends do not match (conformance is per node, agreement is C01's matter)
    if rng.random() < 0.2:
        cfg["nodes"][1]["pw"] = gen.gen_bytes(rng).hex()
    if rng.random() < 0.25:
        cfg["nodes"][rng.randrange(2)]["impl"] = "model"
    if rng.random() < 0.04:
        cfg["big_endian_host"] = True       # the wire format must not depend on the host's byte order
    pc = rng.choice([0.0, 0.4, 0.7])
    steps = gen.interleave(rng, [gen.gen_lifecycle(rng, 0, 3, pc), gen.gen_lifecycle(rng, 1, 3, pc)])
    order = [(1, 0), (0, 1)]
    rng.shuffle(order)
    for src, dst in order:
        st = {"op": "deliver", "src": src, "dst": dst}
        k = rng.choice(WELLFORMED)
        if k == "substitute":
            st["fault"] = {"kind": "substitute", "elem": rng.choice(["base", "M", "N", "S", "kG", "identity"]),
                           "k": rng.randrange(1, 1000)}
        elif k == "reflect":
            st["fault"] = {"kind": "reflect", "label": {"A": 0x42, "B": 0x41, "S": 0x53}[cfg["nodes"][dst]["cls"]]}
        elif k == "replace":
            st["fault"] = faults.gen_fault(rng, 2, esize)
        place(rng, steps, st, [0, 1], [dst])
    return {"property": PROP, "config": cfg, "steps": steps}


class Oracle(Hooks):
    prop = PROP

    def after_step(self, w, step, ev):
        op = ev["op"]
        if op == "start" and ev["out"] == "msg" and ev.get("first"):
            n = w.nodes[ev["n"]]
            if n.impl != "real":
                return
            gk = group_kind(w, n.cur_pset)
            msg = ev["msg"]
            g = n.mparams().group
            if not isinstance(msg, bytes) or len(msg) != 1 + g.elem_size:
                self.flag(w, "message-shape", "start() returned %r" % (msg if not isinstance(msg, bytes) else len(msg),),
                          group=gk, cls=n.cls)
                return
            if n.x is None:
                w.probe("x-unavailable")
                return
            if msg != n.spec_out:
                what = "side byte" if msg[1:] == n.spec_out[1:] else "element"
                self.flag(w, "message-differs",
                          "start() message is not side || enc(x*G + w*blinding) for the x reported by serialize(): %s differs"
                          % what, group=gk, cls=n.cls, what=what)
            else:
                w.probe("start-conforms")
        elif op in ("deliver", "craft") and ev["out"] != "skip":
            n = w.nodes[ev["n"]]
            if n.impl != "real":
                w.probe("model-peer")
                return
            if n.spec is None or n.spec.x is None or n.wrong_restore:
                return
            if any(c[0] == "finish" for c in n.calls[:-1]):
                return           # not the first finish() on this instance
            gk = group_kind(w, n.cur_pset)
            try:
                want = ("key", n.spec.finish(ev["wire"]))
            except SpecError as e:
                if e.name != "ReflectionThwarted":
                    return       # malformed / mis-labelled: C05 / C06 territory
                want = ("exc", "ReflectionThwarted")
            if ev.get("fault") == "substitute":
                w.probe("wellformed-substitute")
            if want[0] == "key":
                if ev["out"] != "key":
                    self.flag(w, "finish-raised", "finish() raised %s on a well-formed message the definition accepts"
                              % ev["out"], group=gk, cls=n.cls, exc=ev["out"], restored=n.restores > 0)
                elif ev["key"] != want[1]:
                    self.flag(w, "key-differs", "finish() key differs from SHA256(transcript) of the definition",
                              group=gk, cls=n.cls, restored=n.restores > 0)
                else:
                    w.probe("key-conforms-restored" if n.restores else "key-conforms")
            else:
                if ev["out"] != "exc:ReflectionThwarted":
                    self.flag(w, "reflection-not-refused", "own element came back, finish() gave %s" % ev["out"],
                              group=gk, cls=n.cls, restored=n.restores > 0)
                else:
                    w.probe("reflection-conforms")
