"""C06 - side confusion and reflection are always refused."""
from .. import gen, worlds, faults
from .common import Hooks, group_kind
from ..model.groups import BadElement

PROP = "C06"
SHADOW = False
CELLS_RULE = "(victim class, fresh/restored, group kind, label class [own/other-flavour/unknown/missing/acceptable], body class)"
EXPECT_PROBES = ["offsides-required", "reflection-required", "unknown-side", "missing-side",
                 "reflection-noncanonical-form", "restored-victim"]

ACCEPT = {"A": 0x42, "B": 0x41, "S": 0x53}


def gen_craft(rng, n, cls, idx, gspec):
    r = rng.random()
    body = rng.choice([{"kind": "own"}, {"kind": "own"}, {"kind": "valid", "k": rng.randrange(1, 1000)}])
    if r < 0.22:
        lab = "own"
    elif r < 0.40:
        lab = rng.choice([0x53] if cls in "AB" else [0x41, 0x42])
    elif r < 0.62:
        lab = (idx + rng.randrange(4) * 64) % 256           # stratified over all 256 values
    elif r < 0.68:
        return {"op": "craft", "dst": n, "label": None, "body": {"kind": "hex", "hex": ""}}
    elif r < 0.72:
        return {"op": "craft", "dst": n, "label": None, "body": body}     # label stripped
    elif r < 0.92:
        lab = ACCEPT[cls]
        body = {"kind": "own"}
    else:
        # own element in another guise under the acceptable label
        lab = ACCEPT[cls]
        body = rng.choice([
            {"kind": "reflect_variant", "how": "extend", "n": rng.choice([1, 2, 32])},
            {"kind": "reflect_variant", "how": "noncanon", "variant": rng.randrange(3)},
            {"kind": "reflect_variant", "how": "pad"},
            {"kind": "reflect_variant", "how": "strip0"},
            {"kind": "reflect_variant", "how": "strip0"},
            {"kind": "reflect_variant", "how": "frame", "tail": rng.randrange(16)},
        ])
    return {"op": "craft", "dst": n, "label": lab, "body": body}


def generate(rng, tier="quick"):
    pspec = gen.gen_pspec(rng)
    gspec = pspec["group"]
    idx = getattr(rng, "idx", rng.randrange(256))
    nv = rng.choice([1, 1, 2, 3])
    classes = [rng.choice(["A", "B", "S"]) for _ in range(nv)]
    nodes, lives, crafts = [], [], []
    for i, cls in enumerate(classes):
        nd = {"cls": cls, "pw": gen.gen_bytes(rng).hex(), "pset": 0, "entropy": gen.gen_entropy(rng, gspec, 0.2)}
        if cls == "S":
            nd["idS"] = gen.gen_bytes(rng).hex()
        else:
            a, b = gen.gen_ids(rng)
            nd["idA"], nd["idB"] = a.hex(), b.hex()
        nodes.append(nd)
        lives.append(gen.gen_lifecycle(rng, i, 2, rng.choice([0.0, 0.5, 0.8])) + [gen_craft(rng, i, cls, idx + i, gspec)])
    steps = gen.interleave(rng, lives)
    for st in steps:
        if st["op"] == "craft" and rng.random() < 0.1:
            st["as"] = rng.choice(["bytearray", "bytearray", "memoryview"])   # a buffer, not a bytes object
    cfg = {"psets": [pspec], "nodes": nodes}
    if rng.random() < 0.1 and gspec["kind"] in gen.CHEAP_TO_REIMPORT and len(nodes) >= 2:
        # process restart variant: two sessions of one class and password under two parameter sets
        # over the SAME group object live in one process, it restarts, the second is restored and
        # is then shown the message it sent before the restart
        ps2 = dict(pspec)
        for k in ("M", "N", "S"):
            ps2[k] = gen.gen_bytes(rng, rng.choice(["one", "short", "ascii"])).hex()
        if gen.usable_pspec(ps2):
            cfg["psets"].append(ps2)
            cfg["fresh_hosts"] = True
            nodes[1].update({"cls": nodes[0]["cls"], "pw": nodes[0]["pw"], "pset": 1})
            for k in ("idA", "idB", "idS"):
                nodes[1].pop(k, None)
                if k in nodes[0]:
                    nodes[1][k] = nodes[0][k]
            del nodes[2:]
            cls = nodes[0]["cls"]
            steps = [{"op": "boot", "n": 0}, {"op": "start", "n": 0}, {"op": "boot", "n": 1}, {"op": "start", "n": 1},
                     {"op": "persist", "n": 0}, {"op": "persist", "n": 1}, {"op": "reboot", "host": 0},
                     {"op": "recover", "n": 1},
                     {"op": "craft", "dst": 1, "label": ACCEPT[cls], "body": {"kind": "own"}}]
    return {"property": PROP, "config": cfg, "steps": steps}


def resolve_variant(world, body, dst):
    """own element in a different byte form (used through World.resolve_body hook)"""
    own = dst.out[1:] if isinstance(dst.out, bytes) else b""
    g = dst.mparams().group
    how = body.get("how")
    if how == "extend":
        return own + b"\x00" * body.get("n", 1)
    if how == "pad":
        return b"\x00" + own
    if how == "strip0":
        # the own element as a minimal-length integer (what a bignum library emits); when it has no
        # leading zero octet, with its first octet dropped
        return own.lstrip(b"\x00") if own[:1] == b"\x00" else own[1:]
    if how == "frame":
        return own + faults.FRAMING_TAILS[body.get("tail", 0) % len(faults.FRAMING_TAILS)]
    if g.kind == "ed" and len(own) == 32:
        raw = int.from_bytes(own, "little")
        sign, y = raw >> 255, raw & ((1 << 255) - 1)
        if y + g.Q < (1 << 255):
            return ((y + g.Q) | (sign << 255)).to_bytes(32, "little")
        return own + own
    if g.kind == "int" and len(own) == g.elem_size:
        i = int.from_bytes(own, "big")
        if i + g.p < 1 << (8 * g.elem_size):
            return (i + g.p).to_bytes(g.elem_size, "big")
    return own + own


class Oracle(Hooks):
    prop = PROP

    def __init__(self):
        self.cells = set()

    def after_step(self, w, step, ev):
        if ev["op"] != "craft" or ev["out"] == "skip":
            return
        n = w.nodes[ev["n"]]
        if any(c[0] == "finish" for c in n.calls[:-1]):
            return
        wire = ev["wire"]
        buffer_typed = bool(step.get("as"))     # not a bytes object: any refusal is fine, a key is not
        cls = n.cur_cls
        gk = group_kind(w, n.cur_pset)
        state = "restored" if n.restores else "fresh"
        if n.restores:
            w.probe("restored-victim")
        label = wire[:1]
        got_key = ev["out"] == "key"
        exc = ev["out"][4:] if ev["out"].startswith("exc:") else None
        body = wire[1:]
        own_body = n.out[1:] if isinstance(n.out, bytes) else None
        g = n.mparams().group
        if label == b"":
            lclass = "missing"
        elif label == bytes([ACCEPT[cls]]):
            lclass = "acceptable"
        elif label == cls.encode():
            lclass = "own"
        elif label in (b"A", b"B", b"S"):
            lclass = "other-flavour"
        else:
            lclass = "unknown"
        bclass = "own" if body == own_body else ("own-variant" if step.get("body", {}).get("kind") == "reflect_variant" else "other")
        self.cells.add("%s|%s|%s|%s|%s" % (cls, state, gk, lclass, bclass))
        w.cells = self.cells
        if lclass in ("missing", "unknown"):
            w.probe("missing-side" if lclass == "missing" else "unknown-side")
            if got_key:
                self.flag(w, "key-for-bad-side", "finish() returned a key for a message with %s side byte %r"
                          % (lclass, label), cls=cls, lclass=lclass, state=state)
            return
        offsides_required = (lclass == "own" and cls in "AB") or (cls == "S" and label in (b"A", b"B"))
        if lclass in ("own", "other-flavour"):
            if got_key:
                self.flag(w, "key-for-wrong-side", "finish() of %s returned a key for a message labelled %r"
                          % (cls, label), cls=cls, lclass=lclass, state=state)
                return
            if offsides_required and not buffer_typed:
                w.probe("offsides-required")
                if exc != "OffSides":
                    self.flag(w, "offsides-not-raised", "%s given a %r-labelled message raised %s, not OffSides"
                              % (cls, label, exc), cls=cls, exc=exc, state=state)
            return
        # acceptable label: reflection
        if own_body is None:
            return
        try:
            same = g.enc(g.dec_strict(body)) == own_body
        except BadElement:
            same = False
        if same:
            w.probe("reflection-required")
            if got_key:
                self.flag(w, "key-for-reflection", "finish() returned a key for the instance's own element",
                          cls=cls, state=state, family=g.kind)
            elif exc != "ReflectionThwarted" and not buffer_typed:
                # Edwards identity: the decoder refuses it before the reflection test; still no key
                if g.rejects_identity and body == g.enc(g.identity):
                    w.probe("reflected-identity")
                else:
                    self.flag(w, "reflection-wrong-error", "own element came back, finish() raised %s" % exc,
                              cls=cls, exc=exc, state=state, family=g.kind)
        elif bclass == "own-variant":
            w.probe("reflection-noncanonical-form")
            if got_key:
                self.flag(w, "key-for-reflection-variant",
                          "finish() returned a key for a re-encoded/extended form of the instance's own element",
                          cls=cls, state=state, family=g.kind, how=step["body"].get("how"))
