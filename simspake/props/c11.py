"""C11 - secret scalars are sampled without bias and only from the entropy function.

Three kinds of run:
  session  ordinary simulated exchange with crash/recover; oracle = entropy accounting over
           the history (only start() draws, only from the seam) + range/provenance of x
  drive    direct drives of unbiased_randrange / random_scalar with adversarial streams
  sweep    the simulator walks the tree of answers the seam can give (all first-round byte
           strings, sampled second rounds) and counts answers per returned value"""
import hashlib
import json

from .. import gen, sim, worlds, loader
from ..seams import EntropySource
from .common import Hooks, place, group_kind
from . import c01

PROP = "C11"
SHADOW = False
EXPECT_PROBES = ["sweep:deep-redraw", "accounting-clean", "ed-provenance", "int-range", "sweep:randrange", "sweep:random_scalar",
                 "sweep:start", "sweep:depth2", "drive:boundary", "drive:redraws"]
RULE = ("one evaluation = one simulated run: a session (exchange with crash/recover, entropy accounting over the "
        "history), a drive of the sampler with an adversarial stream, or one seam sweep (ALL first-round answers of "
        "the entropy seam for one range/group, optionally all second-round answers under sampled rejected prefixes); "
        "distinct = distinct (kind, group/range, schedule shape); non-trivial = the sampler or start() actually ran")


def generate(rng, tier="quick"):
    r = rng.random()
    if r < 0.45:
        scn = c01.generate(rng, tier)
        scn["kind"] = "session"
        # more adversarial entropy than C01
        g = scn["config"]["psets"][0]["group"]
        for nd in scn["config"]["nodes"]:
            nd["entropy"] = gen.gen_entropy(rng, g, 0.6)
            if rng.random() < 0.06:
                nd["entropy"]["falsy"] = True      # callable, but bool(entropy_f) is False
        if rng.random() < 0.25:
            # an application bug calls start() again: refused, and must not touch the entropy source
            k = rng.randrange(2)
            pos = [i for i, st in enumerate(scn["steps"]) if st["op"] == "start" and st["n"] == k]
            if pos:
                at = rng.randrange(pos[0] + 1, len(scn["steps"]) + 1)
                scn["steps"].insert(at, {"op": "start", "n": k})
        return scn
    if r < 0.60:
        # direct drive
        width = rng.choice([1, 2, 3, 7, 8, 9, 255, 256, 257, 1000, 65535, 65536, 65537,
                            rng.randrange(1, 1 << 20), rng.randrange(1, 1 << 64), (1 << 64) - 1, 1 << 64,
                            rng.randrange(1, 1 << 200), rng.randrange(1 << 2039, 1 << 2048), 1 << 2048,
                            rng.randrange(1 << 4090, 1 << 4100), rng.randrange(1 << 8000, 1 << 8200)])
        start = rng.choice([0, 0, 1, rng.randrange(1 << 16), -5])
        mode = rng.choice(["uniform", "boundary", "redraws", "zeros", "counter", "target"])
        ent = {"mode": mode, "seed": rng.randrange(1 << 40), "q": str(width), "k": rng.randrange(1, 6),
               "v": str(rng.choice([0, 1, width - 1, width, width + 1]))}
        return {"kind": "drive", "config": {"psets": [{"group": {"kind": "none"}}], "nodes": []},
                "steps": [{"op": "drive", "start": start, "stop": start + width, "entropy": ent,
                           "reps": rng.choice([1, 3, 20])}]}
    # sweeps
    fn = rng.choice(["randrange", "randrange", "random_scalar", "start"])
    depth2 = rng.random() < (0.15 if tier == "quick" else 0.3)
    if fn == "randrange":
        width = rng.choice([1, 2, 3, 4, 5, 7, 8, 9, 15, 16, 17, 31, 32, 33, 100, 127, 128, 129, 200, 255,
                            256, 257, 300, 511, 512, 513, 1000, 4095, 4096, 4097, 32767, 32768, 32769, 40000,
                            65535, rng.randrange(1, 256), rng.randrange(1, 256), rng.randrange(256, 65536)])
        if rng.random() < 0.3:
            # stratified walk over ALL widths 1..65535 along the run index (a long soak covers them all)
            width = 1 + (getattr(rng, "idx", 0) * 7919) % 65535
        start = rng.choice([0, 0, 1, 7, rng.randrange(1 << 20), -3])
        step = {"op": "sweep", "fn": fn, "start": start, "stop": start + width}
        cfg = {"psets": [{"group": {"kind": "none"}}], "nodes": []}
    else:
        while True:
            gs = worlds.gen_int_group(rng, rng.choice([1, 2, 3, 4, 5, 6, 7, 8, 8, 9, 12, 16]))
            ps = {"group": gs}
            if gen.usable_pspec(ps):
                break
        step = {"op": "sweep", "fn": fn, "pset": 0}
        if fn == "start":
            step["cls"] = rng.choice(["A", "B", "S"])
            step["pw"] = gen.gen_bytes(rng).hex()
        cfg = {"psets": [ps], "nodes": []}
    if rng.random() < 0.12:
        w2 = rng.choice([2, 3, 200, 255, 256, 257, 1000, 65535, 65536, 65537, 1 << 24, (1 << 64) + 1, 1 << 160,
                         rng.randrange(1, 1 << 20), rng.randrange(1, 1 << 300)])
        step["reenter"] = [0, w2]
    if depth2:
        step["depth2"] = rng.randrange(1 << 30)
    if rng.random() < 0.15 and fn != "start":
        step["deep"] = rng.choice([2, 3, 10, 31, 32, 33, 63, 64, 65, 100, 127, 128, 129, 200, 255, 256, 257, 300])
    return {"kind": "sweep", "config": cfg, "steps": [step]}


class MiniWorld:
    def __init__(self, scn):
        self.scn = scn
        self.events, self.findings, self.fired, self.probes = [], [], {}, {}
        self.tick, self.skipped = 0, 0
        self.nontrivial = True
        self.cells = set()
        self.psets = scn["config"]["psets"]

    def probe(self, k, n=1):
        self.probes[k] = self.probes.get(k, 0) + n

    def log(self, op, out, d="-", **kw):
        ev = {"i": len(self.events), "op": op, "n": None, "out": out, "d": d}
        ev.update(kw)
        self.events.append(ev)

    def flag(self, clause, msg, **sig):
        s = {"property": PROP, "clause": clause}
        s.update(sig)
        self.findings.append({"sig": s, "msg": msg})


class SweepStop(Exception):
    """raised by the seam when the sampler asks for more than the prescribed answers:
    the prescribed prefix was rejected (no need to let the sampler run on)"""


class Scripted:
    """entropy seam answering a prescribed prefix; afterwards either stops the call
    (stop=True) or continues with a uniform stream"""

    def __init__(self, prefix, seed, stop=False, pre=None):
        self.pre = pre           # one-shot callback run inside the first read (re-entrancy at the seam)
        self.prefix = prefix
        self.i = 0
        self.seed = seed
        self.ctr = 0
        self.sizes = []
        self.stop = stop

    def __call__(self, n):
        if self.pre is not None:
            p, self.pre = self.pre, None
            p()
        if self.i < len(self.prefix):
            self.sizes.append(n)
            v = self.prefix[self.i]
            self.i += 1
            return (v % (1 << (8 * n))).to_bytes(n, "big") if n else b""
        if self.stop:
            raise SweepStop()
        self.sizes.append(n)
        self.i += 1
        out = b""
        while len(out) < n:
            out += hashlib.sha256(b"s|%d|%d" % (self.seed, self.ctr)).digest()
            self.ctr += 1
            if self.ctr > 100000:
                raise RuntimeError("sampler does not terminate")
        return out[:n]


def _sweep_target(lib, step, psets):
    """returns (callable f(entropy) -> value, lo, hi, name)"""
    fn = step["fn"]
    if fn == "randrange":
        a, b = step["start"], step["stop"]
        return (lambda e: lib.util.unbiased_randrange(a, b, e)), a, b, "randrange"
    P = worlds.lib_params(psets[step["pset"]])
    M = worlds.model_params(psets[step["pset"]])
    q = M.group.q
    if fn == "random_scalar":
        return (lambda e: P.group.random_scalar(e)), 0, q, "random_scalar"
    K = lib.classes[step["cls"]]
    pw = bytes.fromhex(step["pw"])

    def run(e):
        inst = K(pw, params=P, entropy_f=e)
        inst.start()
        d = json.loads(inst.serialize().decode("ascii"))
        return M.group.dec_scalar(bytes.fromhex(d["xy_scalar"]))
    return run, 0, q, "start"


def execute(scn):
    kind = scn.get("kind")
    if kind == "session":
        return sim.run_scenario(scn, shadow=False, hooks=SessionOracle())
    lib = loader.load()
    lib.trip._ctr = 0
    w = MiniWorld(scn)
    step = scn["steps"][0]
    if kind == "drive":
        a, b = step["start"], step["stop"]
        ent = EntropySource(step["entropy"])
        w.probe("drive:" + ent.mode)
        for _ in range(step.get("reps", 1)):
            t0 = lib.trip.calls
            c0 = len(ent.calls)
            try:
                v = lib.util.unbiased_randrange(a, b, ent)
            except Exception as e:
                w.log("drive", "exc:" + type(e).__name__)
                if ent.exhausted:
                    w.flag("sampler-does-not-terminate", "unbiased_randrange(%d,%d) asked for more than %d draws under "
                           "a %s stream" % (a, b, ent.DRAW_CAP, ent.mode), fn="randrange")
                else:
                    w.flag("sampler-raised", "unbiased_randrange(%d,%d) raised %s" % (a, b, type(e).__name__), fn="randrange")
                return w
            w.log("drive", "val", sim.dg(str(v)))
            got = sum(nn for nn, _ in ent.calls[c0:])
            need = ((b - a - 1).bit_length() + 7) // 8
            if got < need:
                w.flag("insufficient-entropy", "unbiased_randrange over a range of %d bits requested only %d byte(s) "
                       "from the entropy function (at least %d are needed for a uniform result)"
                       % ((b - a - 1).bit_length(), got, need), fn="randrange")
            if not (a <= v < b):
                w.flag("out-of-range", "unbiased_randrange(%d, %d) returned %d under a %s stream" % (a, b, v, ent.mode),
                       fn="randrange", mode=ent.mode)
            if lib.trip.calls != t0:
                w.flag("bypassed-seam", "unbiased_randrange used os.urandom", fn="randrange")
            w.tick += len(ent.calls) - c0
        return w
    # sweep
    f, lo, hi, name = _sweep_target(lib, step, scn["config"]["psets"])
    width = hi - lo
    pre = None
    if step.get("reenter"):
        # the entropy function is application code: while the sampler waits for its bytes, ANOTHER draw
        # (other range, own stream) runs to completion on the same thread
        lo2, hi2 = step["reenter"]

        def pre():
            try:
                lib.util.unbiased_randrange(lo2, hi2, Scripted([], lo2 + hi2))
            except Exception:        # noqa
                pass
        w.probe("sweep:reentrant")
    probe0 = Scripted([], 0, pre=pre)
    try:
        f(probe0)
    except Exception as e:
        w.log("sweep", "exc:" + type(e).__name__)
        w.flag("sampler-raised", "%s raised %s" % (name, type(e).__name__), fn=name)
        return w
    n = probe0.sizes[0] if probe0.sizes else 0
    if n > 2 or n == 0:
        w.probe("sweep-too-wide")
        w.log("sweep", "skip")
        w.nontrivial = False
        return w
    space = 1 << (8 * n)
    tally = {}
    rejected = []
    t0 = lib.trip.calls
    for s in range(space):
        e = Scripted([s], s, stop=True, pre=pre)
        try:
            v = f(e)
        except SweepStop:
            rejected.append(s)
            continue
        if not (lo <= v < hi):
            w.flag("out-of-range", "%s returned %d outside [%d,%d) for first answer %0*x" % (name, v, lo, hi, 2 * n, s), fn=name)
            w.log("sweep", "bad")
            return w
        tally[v] = tally.get(v, 0) + 1
    w.tick += space
    if lib.trip.calls != t0:
        w.flag("bypassed-seam", "%s used os.urandom" % name, fn=name)
    counts = set(tally.values())
    missing = width - len(tally)
    acc = space - len(rejected)
    w.probe("sweep:" + name)
    w.cells.add("%s|w=%d" % (name, width))
    if missing:
        w.flag("value-unreachable", "%s over [%d,%d): %d value(s) are never returned for any first-round answer"
               % (name, lo, hi, missing), fn=name)
    elif len(counts) != 1:
        w.flag("biased", "%s over [%d,%d): values are hit by different numbers of answers (%d..%d of %d)"
               % (name, lo, hi, min(counts), max(counts), space), fn=name)
    if acc * 2 < space:
        w.flag("low-acceptance", "%s over [%d,%d): only %d of %d first-round answers are accepted (expected draws > 2)"
               % (name, lo, hi, acc, space), fn=name)
    w.log("sweep", "ok", sim.dg(json.dumps(sorted(tally.items())[:50])), width=width, accepted=acc, space=space)
    # the sampler is memoryless: after ANY number of rejected answers the next round must be as
    # uniform as the first (1-byte answer spaces only: the tally costs 256 * (k+1) calls)
    if "deep" in step and rejected and n == 1:
        k = step["deep"]
        pre = [rejected[i % len(rejected)] for i in range(k)]
        t3, acc3 = {}, 0
        sizes_ok = True
        for s3 in range(space):
            e = Scripted(pre + [s3], s3, stop=True)
            try:
                v = f(e)
            except SweepStop:
                continue
            if len(e.sizes) != k + 1:
                continue
            if e.sizes[-1] != n:
                sizes_ok = False
            if not (lo <= v < hi):
                w.flag("out-of-range", "%s returned %d outside [%d,%d) after %d re-draws" % (name, v, lo, hi, k), fn=name)
                return w
            t3[v] = t3.get(v, 0) + 1
            acc3 += 1
        w.tick += space
        w.probe("sweep:deep-redraw")
        if acc3 and (len(t3) != width or len(set(t3.values())) != 1 or acc3 != acc):
            w.flag("biased", "%s over [%d,%d): after %d rejected answers the next draw is not the same uniform draw "
                   "(%d of %d values reachable, multiplicities %s, %d accepted vs %d in round 1%s)"
                   % (name, lo, hi, k, len(t3), width, sorted(set(t3.values()))[:4], acc3, acc,
                      "" if sizes_ok else ", request size changed"), fn=name, round="deep")
        w.log("sweep3", "ok", sim.dg(json.dumps(sorted(t3.items())[:50])), k=k)
    # second round under sampled rejected prefixes: the re-draw must be as uniform as the first
    if "depth2" in step and rejected:
        import random
        r2 = random.Random(step["depth2"])
        for s in r2.sample(rejected, min(len(rejected), 2 if n == 1 else 1)):
            t2 = {}
            acc2 = 0
            for s2 in range(space):
                e = Scripted([s, s2], s2, stop=True)
                try:
                    v = f(e)
                except SweepStop:
                    continue
                if not (lo <= v < hi):
                    w.flag("out-of-range", "%s returned %d outside [%d,%d) in the second round" % (name, v, lo, hi), fn=name)
                    return w
                if len(e.sizes) == 2:
                    t2[v] = t2.get(v, 0) + 1
                    acc2 += 1
            w.tick += space
            w.probe("sweep:depth2")
            if len(t2) != width or len(set(t2.values())) != 1:
                w.flag("biased", "%s over [%d,%d): after a rejected first answer the re-draw is not uniform "
                       "(%d of %d values reachable, multiplicities %s)" % (name, lo, hi, len(t2), width,
                                                                           sorted(set(t2.values()))[:4]), fn=name, round=2)
            if acc2 != acc:
                w.flag("biased", "%s: acceptance differs between first (%d) and second (%d) round" % (name, acc, acc2),
                       fn=name, round=2)
            w.log("sweep2", "ok", sim.dg(json.dumps(sorted(t2.items())[:50])))
    return w


class SessionOracle(Hooks):
    prop = PROP

    def finish(self, w):
        clean = True
        for (ni, api, seam, trip) in w.acct:
            n = w.nodes[ni]
            if trip:
                clean = False
                self.flag(w, "bypassed-seam", "%s() made %d os.urandom call(s) instead of using entropy_f (%s)"
                          % (api, trip, ",".join(w.lib.trip.log[-2:])), api=api)
            if api != "start" and seam:
                clean = False
                self.flag(w, "entropy-outside-start", "%s() requested %d byte(s) from entropy_f" % (api, seam), api=api)
        for e in w.events:
            if e["op"] == "start" and e["out"] == "exc:OnlyCallStartOnce":
                # find the accounting entry of this very call: events and acct are appended in step order
                pass
        starts = {}
        for (ni, api, seam, trip) in w.acct:
            if api == "start":
                starts.setdefault(ni, []).append(seam)
        for ni, seams in starts.items():
            refused = [e for e in w.events if e["op"] == "start" and e["n"] == ni and e["out"] == "exc:OnlyCallStartOnce"]
            if refused and w.nodes[ni].crashes == 0 and len(seams) >= 2 and any(x for x in seams[1:]):
                clean = False
                self.flag(w, "entropy-outside-start", "a refused second start() requested %s byte(s) from entropy_f"
                          % seams[1:], api="start-refused")
        for e in w.events:
            if e["op"] == "recover" and e["out"] == "exc:NotImplementedError":
                clean = False
                self.flag(w, "entropy-outside-start", "from_serialized() tried to draw entropy (the library's own "
                          "must-not-be-used entropy stub raised NotImplementedError)", api="from_serialized")
        if clean:
            w.probe("accounting-clean")
        for n in w.nodes:
            if n.impl == "real" and n.entropy.exhausted:
                self.flag(w, "sampler-does-not-terminate", "start() asked the entropy function more than %d times"
                          % n.entropy.DRAW_CAP, family=n.mparams().group.kind)
        for n in w.nodes:
            if n.impl != "real" or n.out is None:
                continue
            g = n.mparams().group
            x = w.scalar_of(n)
            blob = None
            if x is None:
                # distinguish 'no blob available' from 'scalar out of range'
                src = n.slot if n.slot is not None else None
                if src is not None:
                    try:
                        raw = bytes.fromhex(json.loads(src.decode("ascii"))["xy_scalar"])
                        v = int.from_bytes(raw, "little" if g.kind == "ed" else "big")
                        if v >= g.q:
                            self.flag(w, "scalar-out-of-range", "secret scalar %d is not in [0,q)" % v, family=g.kind)
                    except Exception:
                        pass
                continue
            if not (0 <= x < g.q):
                self.flag(w, "scalar-out-of-range", "secret scalar %d is not in [0,q)" % x, family=g.kind)
                continue
            calls = [c for c in n.entropy.calls]
            if g.kind == "ed":
                if len(calls) != 1 or calls[0][0] != 64:
                    self.flag(w, "ed-oversampling", "Ed25519 start() requested %s bytes, expected one request of 64 "
                              "(512 fresh bits)" % [c[0] for c in calls], family="ed")
                elif calls[0][1] is not None and x != int.from_bytes(calls[0][1], "big") % g.q:
                    self.flag(w, "ed-provenance", "Ed25519 scalar is not the 512 entropy bits reduced modulo the order",
                              family="ed")
                else:
                    w.probe("ed-provenance")
            else:
                w.probe("int-range")
                got = sum(c[0] for c in calls)
                need = ((g.q - 1).bit_length() + 7) // 8
                if got < need:
                    self.flag(w, "insufficient-entropy", "start() requested %d byte(s) for a %d-bit group order"
                              % (got, g.q.bit_length()), family="int")
                if n.entropy.mode in ("boundary", "redraws"):
                    w.probe("drive:" + n.entropy.mode)
                if len(calls) > 1:
                    w.probe("redraw-happened")
