"""C02 - any mismatch or in-flight tampering prevents agreement on a key."""
import copy

from .. import gen, faults, worlds
from .common import Hooks, place, group_kind
from ..model.spec import SpecError

PROP = "C02"
SHADOW = False
EXPECT_PROBES = ["diff:pw", "diff:ids", "diff:pset", "altered-one", "altered-both", "coordinated"]

COORD_SUFFIX = ["dup", "dst_body", "zero", "rand", "framing"]


def near_miss(rng, v):
    """a byte string an application-level normalisation might confuse with v"""
    c = rng.randrange(11)
    if c == 9:
        return b"\x00" * rng.choice([1, 1, 2]) + v
    if c == 10:
        return v.lstrip(b"\x00") if v.startswith(b"\x00") else b"\x00" + v
    if c >= 7:
        # long strings that agree on a prefix of one or two hash blocks / a typical truncation length
        cut = rng.choice([16, 32, 55, 56, 63, 64, 65, 119, 128, 255, 256])
        base = (v * (cut // max(1, len(v)) + 2))[:cut] if v else bytes(rng.randrange(256) for _ in range(cut))
        return base + bytes([rng.randrange(256)]) if c == 7 else base + b"\x00"
    try:
        if c == 0 and any(b >= 0x80 for b in v):
            return v.decode("latin-1").encode("utf-8")
        if c == 1:
            return v.decode("utf-8").encode("latin-1")
    except (UnicodeDecodeError, UnicodeEncodeError):
        pass
    if c == 2:
        return v + b"\x00"
    if c == 3 and v.endswith(b"\x00"):
        return v.rstrip(b"\x00")
    if c == 4:
        return v.swapcase()
    if c == 5:
        return v + b" "
    if c == 6 and v:
        return v.hex().encode("ascii")
    return v + b"\x01"


def near_pair(rng):
    """two different byte strings that a length cap or a pre-hashing step would confuse:
    (long L, digest of L) and (P || x, P || y) with a long common prefix P"""
    import hashlib
    c = rng.randrange(4)
    if c == 3:
        x, y = gen.near_family(rng, 2)
        return x, y
    if c == 0:
        L = gen.gen_bytes(rng, "huge")
        d = rng.choice([hashlib.sha256(L).digest(), hashlib.sha256(L).hexdigest().encode(),
                        hashlib.sha1(L).digest(), hashlib.md5(L).digest(), hashlib.sha512(L).digest()])
        return L, d
    n = rng.choice([1024, 2048, 4096, 4096, 8192, 16384, 65536])
    P = bytes(rng.randrange(256) for _ in range(64)) * (n // 64)
    if c == 1:
        return P + b"x", P + b"y"
    return P, P + bytes(rng.randrange(256) for _ in range(rng.choice([1, 7, 100])))


def _differ(rng, cfg, kinds, focus=False):
    """apply 1..3 configuration differences to node 1; returns the list applied.
    focus=True: only the near-miss classes"""
    a, b = cfg["nodes"][0], cfg["nodes"][1]
    done = []
    fr = (lambda p: 1.0) if focus else (lambda p: p)
    for kind in kinds:
        if kind == "pw" and rng.random() < (0.3 if focus else 0.12):
            x, y = near_pair(rng)
            for nd in cfg["nodes"][:2]:
                nd["pw"] = x.hex()
            b["pw"] = y.hex()
            done.append("pw-pair")
            continue
        if kind == "ids" and rng.random() < (0.25 if focus else 0.12):
            x, y = near_pair(rng)
            key = "idS" if a["cls"] == "S" else rng.choice(["idA", "idB"])
            for nd in cfg["nodes"][:2]:
                nd[key] = x.hex()
            b[key] = y.hex()
            done.append(key + "-pair")
            continue
        if kind == "pw":
            if rng.random() < fr(0.3):
                v = near_miss(rng, bytes.fromhex(a["pw"])).hex()
            else:
                v = a["pw"]
            while v == a["pw"]:
                v = gen.gen_bytes(rng).hex()
            b["pw"] = v
            done.append("pw")
        elif kind == "ids":
            if a["cls"] == "S":
                v = a.get("idS", "")
                if rng.random() < fr(0.4):
                    v = near_miss(rng, bytes.fromhex(v)).hex()
                while v == a.get("idS", ""):
                    v = gen.gen_bytes(rng).hex()
                b["idS"] = v
                done.append("idS")
            else:
                ida, idb = bytes.fromhex(a.get("idA", "")), bytes.fromhex(a.get("idB", ""))
                c = rng.randrange(10) if not focus else rng.randrange(6, 10)
                if c >= 8:
                    # the pair (x SEP y, z) and the pair (x, y SEP z): equal once joined with SEP
                    sep = rng.choice([b"\x00", b"\x00", b":", b"|", b",", b" ", b"/"])
                    x, y = gen.gen_bytes(rng, "short"), gen.gen_bytes(rng, "short")
                    x, y = x.replace(sep, b"x"), y.replace(sep, b"y")
                    z = idb
                    a["idA"], a["idB"] = (x + sep + y).hex(), z.hex()
                    b["idA"], b["idB"] = x.hex(), (y + sep + z).hex()
                    done.append("ids-separator")
                elif c >= 6:
                    which = rng.choice(["idA", "idB"])
                    old = ida if which == "idA" else idb
                    v = near_miss(rng, old)
                    if v == old:
                        v = old + b"x"
                    b[which] = v.hex()
                    done.append(which + "-near")
                elif c == 0 and ida != idb:
                    b["idA"], b["idB"] = idb.hex(), ida.hex()
                    done.append("swap")
                elif c == 1 and len(ida + idb) >= 1:
                    # boundary shift: same concatenation, different split
                    j = ida + idb
                    cuts = [k for k in range(len(j) + 1) if k != len(ida)]
                    k = rng.choice(cuts)
                    b["idA"], b["idB"] = j[:k].hex(), j[k:].hex()
                    done.append("boundary")
                elif c == 2:
                    b["idB"] = (idb + bytes([rng.randrange(256)])).hex()
                    done.append("idB")
                elif c == 3:
                    b["idA"] = (ida + bytes([rng.randrange(256)])).hex()
                    done.append("idA")
                elif c == 4:
                    while True:
                        v = gen.gen_bytes(rng)
                        if v != idb:
                            break
                    b["idB"] = v.hex()
                    done.append("idB")
                else:
                    while True:
                        v = gen.gen_bytes(rng)
                        if v != ida:
                            break
                    b["idA"] = v.hex()
                    done.append("idA")
        elif kind == "pset":
            ps0 = cfg["psets"][0]
            g0 = ps0["group"]
            if not gen.is_negligible(g0):
                continue
            c = rng.randrange(4)
            ps1 = copy.deepcopy(ps0)
            if c == 0:
                # same group, another seed for an element the roles use
                key = "S" if a["cls"] == "S" else rng.choice(["M", "N"])
                old = worlds.seeds_of(ps0)[key]
                v = near_miss(rng, old) if rng.random() < 0.4 else old
                while v == old:
                    v = gen.gen_bytes(rng, rng.choice(["one", "short", "ascii", "empty", "nul"]))
                ps1[key] = v.hex()
                done.append("pset:" + key)
            elif c == 1:
                # another shipped group
                others = [k for k in ("ed25519", "i1024", "i2048") if k != g0["kind"]]
                ps1["group"] = {"kind": rng.choice(others)}
                done.append("pset:group")
            elif c == 2 and g0["kind"] == "int":
                og = worlds.other_generator(g0, rng)
                if og is None:
                    continue
                ps1["group"] = og
                done.append("pset:generator")
            else:
                # custom group of the same element width where available
                pool = [g for g in gen.big_groups() if g != g0 and
                        (int(g["p"]).bit_length() + 7) // 8 == worlds.model_group(g0).elem_size]
                if not pool:
                    continue
                ps1["group"] = dict(rng.choice(pool))
                done.append("pset:group-same-width")
            if not gen.usable_pspec(ps1):
                continue
            cfg["psets"].append(ps1)
            b["pset"] = len(cfg["psets"]) - 1
    return done


def generate(rng, tier="quick"):
    cfg = gen.gen_base_config(rng, entropy_edge=0.2)
    esize = worlds.model_group(cfg["psets"][0]["group"]).elem_size
    third = rng.random() < 0.25
    if third:
        extra = copy.deepcopy(rng.choice(cfg["nodes"]))
        extra["entropy"] = {"mode": "uniform", "seed": rng.randrange(1 << 40)}
        if rng.random() < 0.5:
            extra["pw"] = gen.gen_bytes(rng).hex()
        cfg["nodes"].append(extra)
    mode = rng.choice(["config", "config", "fault", "fault", "fault", "both", "coord", "coord", "nearmiss"])
    applied = []
    pc = rng.choice([0.0, 0.0, 0.3, 0.6, 0.9])
    if mode == "nearmiss":
        # focused: ONE near-miss difference (a string a normalisation, re-split, cap or pre-hash
        # would confuse with the other end's) and nothing else, with both ends going through
        # persist/restore - that is where such confusions live
        applied = _differ(rng, cfg, [rng.choice(["pw", "ids", "ids"])], focus=True)
        pc = 0.9
    elif mode in ("config", "both"):
        kinds = rng.sample(["pw", "ids", "pset"], rng.choice([1, 1, 2, 3]))
        applied = _differ(rng, cfg, kinds)
    lives = [gen.gen_lifecycle(rng, 0, 2, pc), gen.gen_lifecycle(rng, 1, 2, pc)]
    if third:
        lives.append([{"op": "boot", "n": 2}, {"op": "start", "n": 2}])
    steps = gen.interleave(rng, lives)
    f01 = f10 = None
    nn = len(cfg["nodes"])
    if mode in ("fault", "both"):
        which = rng.choice(["to0", "to1", "both"])
        if which in ("to0", "both"):
            f10 = faults.gen_fault(rng, nn, esize)
        if which in ("to1", "both"):
            f01 = f01 or faults.gen_fault(rng, nn, esize)
    elif mode == "coord":
        c = rng.randrange(4)
        if c == 0:
            # both messages extended with suffixes drawn from a small alphabet
            seed = rng.randrange(1 << 16)
            n = rng.choice([0, 0, esize, 1])
            tail = rng.randrange(len(faults.FRAMING_TAILS))
            f10 = {"kind": "extend", "with": rng.choice(COORD_SUFFIX), "n": n, "seed": seed, "coord": True, "tail": tail}
            f01 = {"kind": "extend", "with": rng.choice(COORD_SUFFIX), "n": n, "seed": seed, "coord": True, "tail": tail}
        elif c == 1:
            n = rng.randrange(0, esize + 1)
            f10 = {"kind": "truncate", "n": n, "coord": True}
            f01 = {"kind": "truncate", "n": n, "coord": True}
        elif c == 2:
            e = rng.choice(["identity", "base", "M", "N", "S", "kG"])
            k = rng.randrange(1, 20)
            f10 = {"kind": "substitute", "elem": e, "k": k, "coord": True}
            f01 = {"kind": "substitute", "elem": rng.choice([e, "identity", "base"]), "k": k, "coord": True}
        else:
            v = rng.randrange(9)
            f10 = {"kind": "noncanon", "variant": v, "coord": True}
            f01 = {"kind": "noncanon", "variant": rng.choice([v, rng.randrange(9)]), "coord": True}
    order = [(1, 0, f10), (0, 1, f01)]
    rng.shuffle(order)
    for src, dst, f in order:
        st = {"op": "deliver", "src": src, "dst": dst}
        if f:
            st["fault"] = f
        place(rng, steps, st, [0, 1] + ([2] if third else []), [dst])
    if rng.random() < 0.15:
        # a later honest duplicate after a restore: a key obtained from it is legitimate
        src, dst, _ = rng.choice(order)
        steps += [{"op": "persist", "n": dst}, {"op": "crash", "n": dst}, {"op": "recover", "n": dst},
                  {"op": "deliver", "src": src, "dst": dst}]
    intent = {"mode": mode, "diff": applied}
    if any(d in ("pset:M", "pset:N", "pset:S") for d in applied) and rng.random() < 0.5:
        # multi-tenant process that builds its parameter sets per session: before node 1 (the end with the
        # OTHER blinding element) is created, an earlier session of node 1's role - same password and
        # identities, but node 0's parameter set - ran against node 0's message and was dropped; its
        # private parameter set died with it, so node 1's set may be built on the very same addresses
        cfg["ephemeral_params"] = True
        t = copy.deepcopy(cfg["nodes"][1])
        t["pset"] = cfg["nodes"][0]["pset"]
        t["pw"] = cfg["nodes"][0]["pw"] if rng.random() < 0.8 else t["pw"]
        t["entropy"] = {"mode": "uniform", "seed": rng.randrange(1 << 40)}
        cfg["nodes"].append(t)
        ti = len(cfg["nodes"]) - 1
        rest = []
        seen = set()
        for st in steps:
            if st["op"] in ("boot", "start") and st.get("n") == 0 and st["op"] not in seen:
                seen.add(st["op"])
                continue
            rest.append(st)
        steps = [{"op": "boot", "n": 0}, {"op": "start", "n": 0}, {"op": "boot", "n": ti}, {"op": "start", "n": ti},
                 {"op": "deliver", "src": 0, "dst": ti}, {"op": "crash", "n": ti}] + rest
        intent["previous_tenant"] = True
    return {"property": PROP, "config": cfg, "steps": steps, "intent": intent}


def used_elements_differ(w, a, b):
    if a.cur_pset == b.cur_pset:
        return False
    pa, pb = w.psets[a.cur_pset], w.psets[b.cur_pset]
    if pa["group"] != pb["group"]:
        return True
    ma, mb = worlds.model_params(pa), worlds.model_params(pb)
    g = ma.group
    if a.cls == "S":
        return g.enc(ma.S) != g.enc(mb.S)
    return g.enc(ma.M) != g.enc(mb.M) or g.enc(ma.N) != g.enc(mb.N)


class Oracle(Hooks):
    prop = PROP

    def model_agrees(self, w, a, b):
        xa, xb = w.scalar_of(a), w.scalar_of(b)
        if xa is None or xb is None:
            w.probe("pset-diff-unverifiable")
            return True
        sa, sb = a.make_spec(a.cur_cls, a.cur_pset), b.make_spec(b.cur_cls, b.cur_pset)
        ma, mb = sa.start(xa), sb.start(xb)
        try:
            return sa.finish(mb) == sb.finish(ma)
        except SpecError:
            return False

    def finish(self, w):
        a, b = w.nodes[0], w.nodes[1]
        gk = group_kind(w)
        diffs = []
        if a.pw != b.pw:
            diffs.append("pw")
        if a.cls == "S":
            if a.ids != b.ids:
                diffs.append("ids")
        elif (a.ida, a.idb) != (b.ida, b.idb):
            diffs.append("ids")
        if used_elements_differ(w, a, b):
            diffs.append("pset")
        for d in diffs:
            w.probe("diff:" + d)
        keyev = {0: [], 1: []}
        altered = set()
        for e in w.events:
            if e["op"] != "deliver" or e["out"] == "skip" or e["n"] not in (0, 1):
                continue
            peer = w.nodes[1 - e["n"]]
            clean = e["wire"] == peer.out
            if not clean:
                altered.add(e["n"])
            if e["out"] == "key":
                keyev[e["n"]].append((e, clean))
        if altered:
            w.probe("altered-both" if len(altered) == 2 else "altered-one")
        if w.scn.get("intent", {}).get("mode") == "coord" and len(altered) == 2:
            w.probe("coordinated")
        if not diffs and not altered:
            w.probe("effectively-honest")
            w.nontrivial = False
            return
        w.nontrivial = True
        if keyev[0] and keyev[1]:
            w.probe("both-returned-keys")
        for ea, ca in keyev[0]:
            for eb, cb in keyev[1]:
                if ea["key"] == eb["key"] and (diffs or not ca or not cb):
                    if (not diffs and a.cls == "S" and b.cls == "S" and a.out == b.out
                            and ea["wire"] == eb["wire"]):
                        # twin sessions: identical configuration, identical secret scalar
                        # (equal outbound messages) and the identical bytes delivered to both:
                        # any deterministic implementation returns the same key twice.
                        w.probe("twin-sessions-same-input")
                        continue
                    if diffs == ["pset"] and ca and cb:
                        # a parameter difference is invisible to the transcript; zero scalars
                        # (forced by the entropy seam) make the blinding term vanish for ANY
                        # correct implementation.  Ask the reference model.
                        if self.model_agrees(w, a, b):
                            w.probe("pset-diff-trivial-agreement")
                            continue
                    fk = sorted(set(x for x in (ea.get("fault"), eb.get("fault")) if x))
                    self.flag(w, "agreed-despite-difference",
                              "both ends returned the same key although %s" %
                              ("configuration differs in " + ",".join(diffs) if diffs else
                               "message(s) were altered in flight (%s)" % ",".join(fk)),
                              group=gk, flavour=a.cls + b.cls, diffs=diffs, faults=fk)
                    return
