"""C07 - an instance is single-use over every call history (specification automaton)."""
import json

from .. import gen
from .common import Hooks, group_kind

PROP = "C07"
SHADOW = False
CELLS_RULE = ("distinct call histories (sequence of call symbols, per victim class) of length <= 4 prefix; run indices "
              "0..3329 walk all 3330 histories of length <= 3 systematically, so they are all present in every batch "
              "of at least 3330 runs")
EXPECT_PROBES = ["second-start-refused", "start-on-restored-refused", "second-finish-refused",
                 "finish-before-start-refused", "serialize-before-start-refused", "scalar-stable",
                 "finish-after-failed-finish", "start-after-failed-start"]

SYMS = ["start", "start_fail", "finish_valid", "finish_own_side", "finish_unknown_side", "finish_reflected",
        "finish_undecodable", "finish_identity", "serialize", "restore",
        # not part of the systematic walk (which uses the first 10 symbols):
        "start_reentrant"]


def _systematic(idx):
    """run indices 0..3329 walk ALL histories of length 1..3 over the 10 symbols for the three
    classes (3 * (10 + 100 + 1000) = 3330), in a fixed order; returns (cls, [symbols]) or None"""
    per = 10 + 100 + 1000
    if idx >= 3 * per:
        return None
    cls = "ABS"[idx // per]
    k = idx % per
    if k < 10:
        L, k = 1, k
    elif k < 110:
        L, k = 2, k - 10
    else:
        L, k = 3, k - 110
    syms = []
    for _ in range(L):
        syms.append(SYMS[k % 10])
        k //= 10
    return cls, syms[::-1]


def generate(rng, tier="quick"):
    sysh = _systematic(getattr(rng, "idx", 1 << 30))
    if sysh is not None:
        cls, syms = sysh
        pspec = gen.gen_pspec(rng, mix=[("small", 70), ("toyed", 20), ("i1024", 10)])
        node = {"cls": cls, "pw": gen.gen_bytes(rng).hex(), "pset": 0,
                "entropy": {"mode": "uniform", "seed": rng.randrange(1 << 40)}}
        steps = [{"op": "boot", "n": 0}]
        for sym in syms:
            st = {"op": "call", "n": 0, "what": sym}
            if sym == "finish_valid":
                st["k"] = rng.randrange(2, 1000)
            if sym in ("finish_unknown_side", "finish_undecodable"):
                st["v"] = rng.choice([0x43, 0x00, 0xff, 0x61])
            steps.append(st)
        return {"property": PROP, "config": {"psets": [pspec], "nodes": [node]}, "steps": steps,
                "intent": {"systematic": True}}
    pspec = gen.gen_pspec(rng, mix=[("ed25519", 8), ("i1024", 8), ("i2048", 2), ("i3072", 1),
                                    ("small", 55), ("medium", 6), ("toyed", 20)])
    cls = rng.choice(["A", "B", "S"])
    node = {"cls": cls, "pw": gen.gen_bytes(rng).hex(), "pset": 0,
            "entropy": {"mode": "uniform", "seed": rng.randrange(1 << 40)}}
    L = rng.choice([1, 2, 2, 3, 3, 3, 4, 4, 4, 5, 6, 8, 10, 10, 18, 25, 40, 70])
    steps = [{"op": "boot", "n": 0}]
    # bias: most histories begin with start (otherwise nearly everything after is a refusal)
    w = [6, 1, 3, 1, 1, 2, 1, 1, 3, 3, 0.7]
    if rng.random() < 0.1:
        # a long-lived instance that is checkpointed again and again (no restore in between)
        L = rng.choice([20, 30, 45, 70])
        w = [3, 0, 2, 1, 0, 1, 0, 0, 30, 0, 0]
    p_intr = rng.choice([0, 0, 0, 0.1, 0.3])    # calls aborted at an arbitrary instant (injected exception)
    for i in range(L):
        sym = rng.choices(SYMS, weights=w)[0]
        if i == 0 and rng.random() < 0.6:
            sym = "start"
        st = {"op": "call", "n": 0, "what": sym}
        if sym == "finish_valid":
            st["k"] = rng.randrange(2, 1000)
        if sym in ("finish_unknown_side", "finish_undecodable"):
            st["v"] = rng.choice([0x43, 0x00, 0xff, 0x61, rng.randrange(256)])
            if st["v"] in (0x41, 0x42, 0x53):
                st["v"] = 0x43
        if sym.startswith("finish_") and rng.random() < 0.12:
            st["as"] = rng.choice(["bytearray", "memoryview"])    # callers pass buffers, not only bytes
        if p_intr and sym in ("start", "finish_valid", "finish_reflected", "serialize", "restore") and rng.random() < p_intr:
            st["interrupt"] = gen.gen_interrupt(rng)
            if sym == "restore":
                st["interrupt"]["skip"] = rng.randrange(2)
        steps.append(st)
    return {"property": PROP, "config": {"psets": [pspec], "nodes": [node]}, "steps": steps}


def history_key(scn):
    return scn["config"]["nodes"][0]["cls"] + ":" + ",".join(s["what"] for s in scn["steps"][1:5])


class Oracle(Hooks):
    prop = PROP

    def __init__(self):
        self.msgs = 0           # messages returned by the current instance
        self.keys = 0
        self.restored = False
        self.start_called = False
        self.start_failed = False
        self.finish_failed = False
        self.scalar = None
        self.hist = []
        self.intr_start = False   # a start() on this instance was aborted by the simulator midway

    def _scalar(self, blob):
        try:
            return json.loads(blob.decode("ascii")).get("xy_scalar")
        except Exception:
            return "<unparseable>"

    def _start_outcome(self, w, out, sig):
        exc = out[4:] if out.startswith("exc:") else None
        must_refuse = self.msgs >= 1 or self.restored
        if out == "msg":
            if must_refuse:
                self.flag(w, "second-message",
                          "start() returned a message on %s" % ("a restored instance" if self.restored else
                                                                "an instance that had already returned one"),
                          restored=self.restored, **sig)
            self.msgs += 1
        else:
            if must_refuse:
                w.probe("start-on-restored-refused" if self.restored else "second-start-refused")
                if exc != "OnlyCallStartOnce":
                    self.flag(w, "start-wrong-error", "repeated start() raised %s, not OnlyCallStartOnce" % exc,
                              exc=exc, restored=self.restored, **sig)
            else:
                if self.start_failed:
                    w.probe("start-after-failed-start")
                self.start_failed = True
        self.start_called = True

    def after_step(self, w, step, ev):
        if ev["op"] != "call" or ev["out"] == "skip":
            return
        what = step["what"]
        cls = w.nodes[0].cur_cls
        self.hist.append(what)
        h = ",".join(self.hist[-4:])
        out = ev["out"]
        exc = out[4:] if out.startswith("exc:") else None
        sig = dict(cls=cls, call=what.split("_")[0])
        if ev.get("interrupted"):
            w.probe("aborted-call:" + ev["intr"]["api"])
            if out not in ("msg", "key", "blob", "inst"):
                # the simulator aborted the call at an arbitrary line: it returned nothing, and the
                # statement fixes nothing about the exception of a failing call
                if what.startswith("start"):
                    self.start_called = self.start_failed = self.intr_start = True
                elif what.startswith("finish_"):
                    self.finish_failed = True
                return
        if what == "start_reentrant" and ev.get("inner") is not None:
            # the nested call completed first
            w.probe("reentrant-start")
            self._start_outcome(w, ev["inner"], sig)
        if what in ("start", "start_fail", "start_reentrant"):
            self._start_outcome(w, out, sig)
        elif False:
            must_refuse = self.msgs >= 1 or self.restored
            if out == "msg":
                if must_refuse:
                    self.flag(w, "second-message",
                              "start() returned a message on %s" % ("a restored instance" if self.restored else
                                                                    "an instance that had already returned one"),
                              restored=self.restored, **sig)
                self.msgs += 1
            else:
                if must_refuse:
                    w.probe("start-on-restored-refused" if self.restored else "second-start-refused")
                    if exc != "OnlyCallStartOnce":
                        self.flag(w, "start-wrong-error", "repeated start() raised %s, not OnlyCallStartOnce" % exc,
                                  exc=exc, restored=self.restored, **sig)
                else:
                    if self.start_failed:
                        w.probe("start-after-failed-start")
                    self.start_failed = True
            self.start_called = True
        elif what.startswith("finish_"):
            started = self.msgs >= 1 or self.restored
            if out == "key":
                if self.keys >= 1:
                    self.flag(w, "second-key", "finish() returned a key twice on one instance", **sig)
                if not started and not self.intr_start:
                    self.flag(w, "key-before-start", "finish() returned a key on an instance that never sent a message", **sig)
                if ev.get("key") is None or len(ev["key"]) != 32:
                    pass
                self.keys += 1
            else:
                if self.keys >= 1:
                    w.probe("second-finish-refused")
                    if exc != "OnlyCallFinishOnce":
                        self.flag(w, "finish-wrong-error", "finish() after a key raised %s, not OnlyCallFinishOnce" % exc,
                                  exc=exc, **sig)
                elif not started:
                    w.probe("finish-before-start-refused")
                elif self.finish_failed:
                    w.probe("finish-after-failed-finish")
                self.finish_failed = True
        elif what == "serialize" or what == "restore":
            phase = ev.get("phase", "serialize")
            if out in ("blob", "inst"):
                if not self.start_called and not self.restored:
                    self.flag(w, "serialize-too-early", "serialize() returned data before start()", **sig)
                sc = self._scalar(ev["blob"])
                if self.scalar is not None and sc != self.scalar:
                    self.flag(w, "scalar-changed", "xy_scalar reported by serialize() changed during the life of an instance", **sig)
                elif self.scalar is not None:
                    w.probe("scalar-stable")
                self.scalar = sc
                if out == "inst":
                    # a new (restored) instance continues the session
                    self.msgs, self.keys, self.restored = 0, 0, True
                    self.start_called, self.start_failed, self.finish_failed = False, False, False
                    self.scalar = None
                    self.intr_start = False
            elif phase == "serialize":
                if not self.start_called and not self.restored:
                    w.probe("serialize-before-start-refused")
                    if exc != "SerializedTooEarly":
                        self.flag(w, "serialize-wrong-error", "serialize() before start() raised %s, not SerializedTooEarly"
                                  % exc, exc=exc, **sig)
        if w.scn.get("intent", {}).get("systematic") and len(self.hist) == len(w.scn["steps"]) - 1:
            w.probe("systematic-history-len<=3")
        cells = getattr(w, "cells", None)
        if cells is None:
            w.cells = cells = set()
        if len(self.hist) <= 4:
            cells.add(cls + ":" + ",".join(self.hist))
