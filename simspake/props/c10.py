"""C10 - the persisted state format is stable across library versions (rolling upgrade /
downgrade against an independent encoder and strict decoder of the released format)."""
import copy

from .. import gen, worlds, selfcheck
from .common import Hooks, group_kind
from ..model.spec import SpecError

PROP = "C10"
SHADOW = True
EXPECT_PROBES = ["upgrade:key-as-predicted", "upgrade:reflection-refused", "downgrade:parsed", "downgrade:key-equal",
                 "golden:key", "golden:reflection"]
ASSUMPTIONS = ["the reference encoder/strict decoder in simspake/model/spec.py is the released (0.9 / pinned tree) "
               "state format; it is validated against 12 frozen blobs written by the pinned tree"]


def generate(rng, tier="quick"):
    r = rng.random()
    if r < 0.06:
        G = selfcheck.golden()["blobs"]
        i = rng.randrange(len(G))
        gb = G[i]
        node = {"cls": gb["cls"], "pw": "", "pset": 0, "entropy": {"mode": "fail"}}
        acc = {"A": 0x42, "B": 0x41, "S": 0x53}[gb["cls"]]
        which = rng.choice(["key", "reflect"])
        steps = [{"op": "load_blob", "n": 0, "golden": i}, {"op": "recover", "n": 0}]
        if which == "key":
            steps.append({"op": "craft", "dst": 0, "label": None, "body": {"kind": "hex", "hex": gb["peer_msg"]}})
        else:
            steps.append({"op": "craft", "dst": 0, "label": acc, "body": {"kind": "hex", "hex": gb["out"][2:]}})
        return {"property": PROP, "config": {"psets": [{"group": {"kind": gb["set"]}}], "nodes": [node]},
                "steps": steps, "intent": {"mode": "golden", "which": which, "i": i}}
    pspec = gen.gen_pspec(rng)
    gspec = pspec["group"]
    cls = rng.choice(["A", "B", "S"])
    peer_cls = {"A": "B", "B": "A", "S": "S"}[cls]
    pw = gen.gen_bytes(rng).hex()
    ida, idb = gen.gen_ids(rng)
    ids = gen.gen_bytes(rng)
    ent = gen.gen_entropy(rng, gspec, 0.3)

    def mk(c, e, impl="real"):
        nd = {"cls": c, "pw": pw, "pset": 0, "entropy": copy.deepcopy(e), "impl": impl}
        if c == "S":
            nd["idS"] = ids.hex()
        else:
            nd["idA"], nd["idB"] = ida.hex(), idb.hex()
        return nd
    acc = {"A": 0x42, "B": 0x41, "S": 0x53}[cls]
    peer = mk(peer_cls, {"mode": "uniform", "seed": rng.randrange(1 << 40)}, rng.choice(["real", "model"]))
    inbound = rng.choice(["valid", "valid", "valid", "reflect"])
    if r < 0.55:
        # (a) upgrade: the 0.9 node (model) wrote the row, the current tree resumes it
        nodes = [mk(cls, ent, "model"), peer]
        steps = [{"op": "boot", "n": 0}, {"op": "boot", "n": 1}, {"op": "start", "n": 0}, {"op": "start", "n": 1},
                 {"op": "persist", "n": 0, "fmt": rng.randrange(1 << 30)}, {"op": "crash", "n": 0},
                 {"op": "recover", "n": 0, "impl": "real"}]
        for _ in range(rng.choice([0, 0, 1, 2])):
            # and keeps going through ordinary restarts of the new version
            p = {"op": "persist", "n": 0}
            if rng.random() < 0.5:
                p["reencode"] = rng.randrange(1 << 20)
            steps += [p, {"op": "crash", "n": 0}, {"op": "recover", "n": 0}]
        d = {"op": "deliver", "src": 1, "dst": 0}
        if inbound == "reflect":
            d["fault"] = {"kind": "reflect", "label": acc}
        steps.append(d)
        mode = "upgrade"
    else:
        # (b) downgrade / other implementation: the current tree wrote the row, a strict reader resumes it
        nodes = [mk(cls, ent), peer, mk(cls, ent)]
        steps = [{"op": "boot", "n": 0}, {"op": "boot", "n": 1}, {"op": "boot", "n": 2}, {"op": "start", "n": 0},
                 {"op": "start", "n": 1}, {"op": "start", "n": 2}]
        for _ in range(rng.choice([0, 0, 1])):
            steps += [{"op": "persist", "n": 0}, {"op": "crash", "n": 0}, {"op": "recover", "n": 0}]
        steps += [{"op": "persist", "n": 0}, {"op": "crash", "n": 0}, {"op": "recover", "n": 0, "impl": "model"}]
        for n in (0, 2):
            d = {"op": "deliver", "src": 1, "dst": n}
            if inbound == "reflect":
                d["fault"] = {"kind": "reflect", "label": acc}
            steps.append(d)
        mode = "downgrade"
    for st in steps:
        if st["op"] == "recover" and st.get("impl") != "model" and rng.random() < 0.1:
            st["blob_as"] = "bytearray"        # the stored row arrives in a buffer object, as released readers accept
    cfg = {"psets": [pspec], "nodes": nodes}
    r2 = rng.random()
    if r2 < 0.10:
        cfg["ephemeral_params"] = True      # parameter-set objects are built per session and freed with it
    elif r2 < 0.16 and gspec["kind"] in gen.CHEAP_TO_REIMPORT:
        cfg["python_O"] = True              # the deployment runs its processes with `python -O`
    return {"property": PROP, "config": cfg, "steps": steps,
            "intent": {"mode": mode, "inbound": inbound}}


class Oracle(Hooks):
    prop = PROP

    def finish(self, w):
        intent = w.scn.get("intent", {})
        mode = intent.get("mode")
        n = w.nodes[0]
        gk = group_kind(w)
        rec = [e for e in w.events if e["op"] == "recover" and e["n"] == 0 and e["out"] != "skip"]
        fin = [e for e in w.events if e["op"] in ("deliver", "craft") and e["n"] == 0 and e["out"] != "skip"]
        for e in w.events:
            if e["op"] == "persist" and e["out"].startswith("exc:") and w.nodes[e["n"]].out is not None \
                    and w.nodes[e["n"]].impl == "real":
                self.flag(w, "serialize-raised", "serialize() raised %s on a started instance instead of emitting the "
                          "released format" % e["out"][4:], mode=mode, cls=w.nodes[e["n"]].cls, exc=e["out"][4:])
                return
        if mode == "golden":
            gb = n.golden
            if not rec or rec[0]["out"] != "inst":
                self.flag(w, "released-state-refused", "from_serialized() refused a row written by the pinned tree (%s/%s): %s"
                          % (gb["set"], gb["cls"], rec[0]["out"] if rec else "-"), mode=mode, cls=gb["cls"], group=gb["set"])
                return
            if not fin:
                return
            e = fin[0]
            if intent["which"] == "key":
                if e["out"] != "key" or e["key"].hex() != gb["key"]:
                    self.flag(w, "resumed-other-session", "frozen row did not finish to its frozen key (%s)" % e["out"],
                              mode=mode, cls=gb["cls"], group=gb["set"])
                else:
                    w.probe("golden:key")
            else:
                if e["out"] != "exc:ReflectionThwarted":
                    self.flag(w, "resumed-other-session", "frozen row does not recognise its own outbound message (%s)"
                              % e["out"], mode=mode, cls=gb["cls"], group=gb["set"])
                else:
                    w.probe("golden:reflection")
            return
        if mode == "upgrade":
            if not rec:
                return
            bad = [e for e in rec if e["out"] != "inst"]
            if bad:
                first_real = rec[0]["out"] != "inst"
                self.flag(w, "released-state-refused",
                          "from_serialized() refused state in the released format (%s): %s" %
                          ("written by the independent encoder" if first_real else "re-encoded JSON of its own output", bad[0]["out"]),
                          mode=mode, cls=n.cls, exc=bad[0]["out"], own=not first_real)
                return
            if not fin:
                return
            e = fin[0]
            try:
                want = ("key", n.spec.finish(e["wire"]))
            except SpecError as ex:
                want = ("exc", ex.name)
            if want[0] == "key":
                if e["out"] != "key" or e["key"] != want[1]:
                    self.flag(w, "resumed-other-session", "state written in the released format resumed to %s, the "
                              "format describes another session key" % e["out"], mode=mode, cls=n.cls, group=gk)
                else:
                    w.probe("upgrade:key-as-predicted")
            elif want[1] == "ReflectionThwarted":
                if e["out"] != "exc:ReflectionThwarted":
                    self.flag(w, "resumed-other-session", "resumed instance does not recognise the session's outbound "
                              "message (%s)" % e["out"], mode=mode, cls=n.cls, group=gk)
                else:
                    w.probe("upgrade:reflection-refused")
            return
        # downgrade
        last = rec[-1] if rec else None
        if last is None:
            return
        if last["out"] != "inst":
            self.flag(w, "not-released-format", "serialize() output is not in the released format: %s"
                      % last.get("detail", last["out"]), mode=mode, cls=n.cls, detail=str(last.get("detail", ""))[:40])
            return
        w.probe("downgrade:parsed")
        tw = [e for e in w.events if e["op"] == "deliver" and e["n"] == 2 and e["out"] != "skip"]
        if fin and tw:
            a, b = fin[0], tw[0]
            norm = lambda e: ("key", e["key"]) if e["out"] == "key" else ("exc", e["out"][4:].split(":")[0])
            na, nb = norm(a), norm(b)
            if na[0] == "key" or nb[0] == "key" or "ReflectionThwarted" in (na[1], nb[1]):
                if na != nb:
                    self.flag(w, "resumed-other-session", "an independent reader of the released format resumed %s, "
                              "the never-crashed real twin gave %s" % (a["out"], b["out"]), mode=mode, cls=n.cls, group=gk)
                else:
                    w.probe("downgrade:key-equal")
