"""C09 - restoring under the wrong role or parameters is always detected."""
import copy

from .. import gen, worlds
from .common import Hooks, group_kind

PROP = "C09"
SHADOW = False
CELLS_RULE = "(saved class, restoring class, kind of parameter difference, group kind)"
EXPECT_PROBES = ["role-mismatch-refused", "params-mismatch-refused", "both-mismatch-refused", "sym-to-asym-refused",
                 "unused-element-differs-accepted", "same-config-accepted", "diff:generator-only", "diff:seed:M",
                 "diff:seed:N", "diff:seed:S", "diff:seed:MN-shift", "diff:seed:MN-swap", "diff:group-pwmap", "diff:shipped", "diff:group"]


def other_p_same_q(gspec, rng):
    from ..model.groups import is_prime
    p, q = int(gspec["p"]), int(gspec["q"])
    bits = p.bit_length()
    for _ in range(3000):
        r = rng.getrandbits(max(2, bits - q.bit_length())) & ~1
        if r < 2:
            continue
        p2 = r * q + 1
        if p2 != p and is_prime(p2):
            for _ in range(50):
                h = rng.randrange(2, p2 - 1)
                g = pow(h, (p2 - 1) // q, p2)
                if g != 1:
                    return {"kind": "int", "p": str(p2), "q": str(q), "g": str(g)}
    return None


def gen_other_pset(rng, ps0, cls):
    """returns (pspec, label) - a parameter set that differs from ps0 in one named way"""
    g0 = ps0["group"]
    ps1 = copy.deepcopy(ps0)
    choices = ["seed:M", "seed:N", "seed:S", "shipped", "seed:MN-shift", "seed:MN-swap"]
    if g0["kind"] == "i1024" or (g0["kind"] == "int" and gen.is_negligible(g0)):
        # (only where the two password mappings cannot coincide on the fingerprinted scalar by chance)
        choices += ["group-pwmap", "group-pwmap"]
    if g0["kind"] == "int":
        choices += ["generator-only", "generator-only", "generator-only"]
        if gen.is_negligible(g0):
            choices += ["group", "other-p"]
    elif g0["kind"] in ("i1024", "i2048", "i3072"):
        choices += ["generator-only"]
    c = rng.choice(choices)
    if c == "group-pwmap":
        # same p, q, g and seeds; the application's group class derives password scalars differently
        if g0["kind"] != "int":
            from ..model import groups as mg
            base = {"kind": "int", "p": str(mg.I1024["p"]), "q": str(mg.I1024["q"]), "g": str(mg.I1024["g"])}
        else:
            base = dict(g0)
        base["pwmap"] = "alt"
        ps1["group"] = base
        return ps1, c
    if c == "seed:MN-swap":
        sd = worlds.seeds_of(ps0)
        if sd["M"] == sd["N"]:
            return None, None
        ps1["M"], ps1["N"] = sd["N"].hex(), sd["M"].hex()
        return ps1, c
    if c == "seed:MN-shift":
        # both seeds change but their concatenation does not (boundary shift, as for identities)
        sd = worlds.seeds_of(ps0)
        j = sd["M"] + sd["N"]
        cuts = [i for i in range(len(j) + 1) if i != len(sd["M"])]
        if not cuts:
            return None, None
        i = rng.choice(cuts)
        ps1["M"], ps1["N"] = j[:i].hex(), j[i:].hex()
        return ps1, c
    if c.startswith("seed:"):
        k = c[5:]
        old = worlds.seeds_of(ps0)[k]
        while True:
            v = gen.gen_bytes(rng, rng.choice(["one", "short", "ascii", "empty"]))
            if v != old:
                break
        ps1[k] = v.hex()
        return ps1, c
    if c == "shipped":
        others = [k for k in ("ed25519", "i1024", "i2048", "i3072") if k != g0["kind"]]
        ps1["group"] = {"kind": rng.choice(others)}
        return ps1, c
    if c == "generator-only":
        if g0["kind"] != "int":
            from ..model import groups as mg
            const = {"i1024": mg.I1024, "i2048": mg.I2048, "i3072": mg.I3072}[g0["kind"]]
            base = {"kind": "int", "p": str(const["p"]), "q": str(const["q"]), "g": str(const["g"])}
        else:
            base = g0
        og = worlds.other_generator(base, rng)
        if og is None:
            return None, None
        ps1["group"] = og
        return ps1, c
    if c == "group":
        pool = [g for g in gen.big_groups() if g != g0]
        ps1["group"] = dict(rng.choice(pool))
        return ps1, c
    og = other_p_same_q(g0, rng)
    if og is None:
        return None, None
    ps1["group"] = og
    return ps1, "group"


def generate(rng, tier="quick"):
    while True:
        ps0 = gen.gen_pspec(rng)
        cls = rng.choice(["A", "B", "S"])
        r = rng.random()
        cls2 = cls if r < 0.45 else rng.choice([c for c in "ABS" if c != cls])
        psets = [ps0]
        label = "same"
        if rng.random() < 0.7 or cls2 == cls and rng.random() < 0.8:
            ps1, label = gen_other_pset(rng, ps0, cls)
            if ps1 is None or not gen.usable_pspec(ps1):
                continue
            psets.append(ps1)
        break
    gspec = ps0["group"]
    peer_cls = {"A": "B", "B": "A", "S": "S"}[cls]
    pw = gen.gen_bytes(rng).hex()
    ida, idb = gen.gen_ids(rng)
    ids = gen.gen_bytes(rng)
    ent = gen.gen_entropy(rng, gspec, 0.15)

    def mk(c, e):
        nd = {"cls": c, "pw": pw, "pset": 0, "entropy": copy.deepcopy(e)}
        if c == "S":
            nd["idS"] = ids.hex()
        else:
            nd["idA"], nd["idB"] = ida.hex(), idb.hex()
        return nd
    # nodes: R1 (gets the valid peer message), R2 (gets its own message reflected), T (twin), P (peer)
    nodes = [mk(cls, ent), mk(cls, ent), mk(cls, ent), mk(peer_cls, {"mode": "uniform", "seed": rng.randrange(1 << 40)})]
    steps = []
    for n in (0, 1, 2, 3):
        steps += [{"op": "boot", "n": n}, {"op": "start", "n": n}]
    target = len(psets) - 1
    pinned = len(psets) > 1 and rng.random() < 0.12
    for n in (0, 1):
        rec = {"op": "recover", "n": n, "cls": cls2, "pset": target}
        if pinned:
            # restored through an application subclass that pins ITS parameter set (the other one),
            # while from_serialized() is handed the parameter set the state was saved under
            rec = {"op": "recover", "n": n, "cls": cls2, "pset": 0, "pinned": target}
        steps += [{"op": "persist", "n": n}, {"op": "crash", "n": n}, rec]
    acc2 = {"A": 0x42, "B": 0x41, "S": 0x53}[cls2]
    steps += [{"op": "deliver", "src": 3, "dst": 2},
              {"op": "deliver", "src": 3, "dst": 0},
              {"op": "deliver", "src": 3, "dst": 1, "fault": {"kind": "reflect", "label": acc2}}]
    cfg = {"psets": psets, "nodes": nodes}
    eph = rng.random() < 0.35
    if eph:
        cfg["ephemeral_params"] = True      # parameter-set objects are built per session and freed with it
    return {"property": PROP, "config": cfg, "steps": steps,
            "intent": {"saved": cls, "restore_as": cls2, "pdiff": label, "ephemeral": eph}}


def param_difference(w, a, b, cls):
    """how parameter sets a and b differ, judged on what they ARE (group constants and
    element bytes), not on seeds: returns (differs_in_group, used_elems_differ, unused_differ)"""
    pa, pb = w.psets[a], w.psets[b]
    ga, gb = worlds.model_group(pa["group"]), worlds.model_group(pb["group"])
    if ga.kind != gb.kind:
        return True, True, True
    if ga.kind == "int":
        gdiff = (ga.p, ga.q, ga.base, type(ga).__name__) != (gb.p, gb.q, gb.base, type(gb).__name__)
        gen_only = gdiff and (ga.p, ga.q, type(ga).__name__) == (gb.p, gb.q, type(gb).__name__)
    else:
        gdiff = (ga.Q, ga.d, ga.L, ga.base) != (gb.Q, gb.d, gb.L, gb.base)
        gen_only = False
    ma, mb = worlds.model_params(pa), worlds.model_params(pb)
    em = {k: ga.enc(getattr(ma, k)) != gb.enc(getattr(mb, k)) for k in "MNS"}
    used = (em["S"],) if cls == "S" else (em["M"], em["N"])
    unused = (em["M"], em["N"]) if cls == "S" else (em["S"],)
    return ("generator-only" if gen_only else gdiff), any(used), any(unused)


class Oracle(Hooks):
    prop = PROP

    def finish(self, w):
        intent = w.scn.get("intent", {})
        T = w.nodes[2]
        gk = group_kind(w)
        tkey = [e for e in w.events if e["op"] == "deliver" and e["n"] == 2 and e["out"] != "skip"]
        cells = set()
        for n in (w.nodes[0], w.nodes[1]):
            rec = [e for e in w.events if e["op"] == "recover" and e["n"] == n.idx and e["out"] != "skip"]
            if not rec:
                continue
            ev = rec[0]
            step = [s for s in w.scn["steps"] if s["op"] == "recover" and s["n"] == n.idx][0]
            saved_cls, saved_pset = n.cls, n.pset
            cls2, pset2 = step.get("cls", saved_cls), step.get("pinned", step.get("pset", saved_pset))
            gdiff, used, unused = param_difference(w, saved_pset, pset2, saved_cls)
            role_diff = cls2 != saved_cls
            pdiff = bool(gdiff) or used
            dlabel = ("generator-only" if gdiff == "generator-only" and not used else
                      "group" if gdiff else "used-element" if used else "unused-element" if unused else "none")
            cells.add("%s>%s|%s|%s" % (saved_cls, cls2, dlabel, gk))
            w.probe("diff:" + intent.get("pdiff", "same")) if n.idx == 0 else None
            returned = ev["out"] == "inst"
            exc = ev["out"][4:] if ev["out"].startswith("exc:") else None
            if role_diff or pdiff:
                if returned:
                    self.flag(w, "wrong-config-accepted",
                              "from_serialized() silently returned an instance for state saved as %s restored as %s "
                              "(parameter difference: %s)" % (saved_cls, cls2, dlabel),
                              saved=saved_cls, restored_as=cls2, diff=dlabel, role_differs=role_diff)
                    continue
                if role_diff and saved_cls in "AB":
                    ok = ("WrongSideSerialized",) if not pdiff else ("WrongSideSerialized", "WrongGroupError")
                    w.probe("both-mismatch-refused" if pdiff else "role-mismatch-refused")
                    if exc not in ok:
                        self.flag(w, "wrong-error-class", "%s state restored as %s raised %s, expected %s"
                                  % (saved_cls, cls2, exc, "/".join(ok)), saved=saved_cls, restored_as=cls2,
                                  exc=exc, diff=dlabel)
                elif role_diff:
                    w.probe("sym-to-asym-refused")
                else:
                    w.probe("params-mismatch-refused")
                    if exc != "WrongGroupError":
                        self.flag(w, "wrong-error-class", "parameter mismatch (%s) raised %s, expected WrongGroupError"
                                  % (dlabel, exc), saved=saved_cls, restored_as=cls2, exc=exc, diff=dlabel)
                continue
            # same role, nothing this role uses differs: an instance may be returned - and then it IS the session
            if not returned:
                # a refusal is never a C09 matter (C08 judges restores under the same configuration)
                w.probe("refused-though-nothing-used-differs")
                continue
            w.probe("unused-element-differs-accepted" if dlabel == "unused-element" else "same-config-accepted")
            fin = [e for e in w.events if e["op"] == "deliver" and e["n"] == n.idx and e["out"] != "skip"]
            if not fin:
                continue
            e = fin[0]
            if n.idx == 0 and tkey:
                t = tkey[0]
                same = (e["out"] == t["out"]) and (e["out"] != "key" or e["key"] == t["key"])
                if not same:
                    self.flag(w, "restored-instance-differs", "returned instance does not derive the original's key "
                              "(%s vs %s)" % (e["out"], t["out"]), saved=saved_cls, diff=dlabel)
                else:
                    w.probe("restored-key-equal")
            elif n.idx == 1:
                g = n.mparams().group
                if e["out"] != "exc:ReflectionThwarted" and not (g.rejects_identity and n.out[1:] == g.enc(g.identity)):
                    self.flag(w, "restored-instance-differs", "returned instance does not recognise the original outbound "
                              "message when reflected (%s)" % e["out"], saved=saved_cls, diff=dlabel)
                else:
                    w.probe("restored-reflection-refused")
        w.cells = cells
