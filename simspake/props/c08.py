"""C08 - persist/restore is transparent at every point between start and finish.

Three twins with identical constructor arguments and identical entropy streams:
  R  suffers k persist/crash/recover cycles,
  U  is serialized (repeatedly) but never restored,
  T  is never touched.
All three are then given the same inbound bytes."""
import copy
import json

from .. import gen, faults, worlds
from .common import Hooks, group_kind

PROP = "C08"
SHADOW = False
EXPECT_PROBES = ["host-reboot", "same-key", "same-error", "same-error:ReflectionThwarted", "same-error:OffSides",
                 "cycles>=3", "blob-json-equal", "serialize-repeatable"]

INBOUND = ["valid", "valid", "valid", "reflect", "reflect", "own_side", "malformed", "identity", "other_valid"]


def generate(rng, tier="quick"):
    pspec = gen.gen_pspec(rng)
    gspec = pspec["group"]
    esize = worlds.model_group(gspec).elem_size
    cls = rng.choice(["A", "B", "S"])
    peer_cls = {"A": "B", "B": "A", "S": "S"}[cls]
    pw = gen.gen_bytes(rng).hex()
    ida, idb = gen.gen_ids(rng)
    ids = gen.gen_bytes(rng)
    ent = gen.gen_entropy(rng, gspec, 0.3)

    def mk(c, e):
        nd = {"cls": c, "pw": pw, "pset": 0, "entropy": copy.deepcopy(e)}
        if c == "S":
            nd["idS"] = ids.hex()
        else:
            nd["idA"], nd["idB"] = ida.hex(), idb.hex()
        return nd
    # sometimes the peer draws from the same (stuck / shared) RNG stream as R: same secret scalar
    same_rng = rng.random() < 0.15
    nodes = [mk(cls, ent), mk(cls, ent), mk(cls, ent),
             mk(peer_cls, ent if same_rng else gen.gen_entropy(rng, gspec, 0.1))]
    k = rng.choice([0, 1, 1, 1, 2, 2, 3, 4, 6])
    # process-level restarts: R lives in its own simulated process (host 0), possibly next to a
    # neighbour session of the OTHER class family that shares the parameter-set object; a
    # restart kills the process, and only the blobs survive - no module-level state does
    procs = rng.random() < 0.12 and gspec["kind"] in gen.CHEAP_TO_REIMPORT and k > 0
    W = []
    if procs:
        nodes[0]["host"], nodes[1]["host"], nodes[2]["host"], nodes[3]["host"] = 0, 1, 1, 2
        if rng.random() < 0.7:
            ncls = "S" if cls in "AB" else rng.choice(["A", "B"])
            nb = mk(ncls, gen.gen_entropy(rng, gspec, 0.1))
            nb["host"] = 0
            nodes.append(nb)
            W = [{"op": "boot", "n": 4}, {"op": "start", "n": 4}, {"op": "persist", "n": 4}]
    R = [{"op": "boot", "n": 0}, {"op": "start", "n": 0}]
    if W and rng.random() < 0.6:
        R = W + R                      # the neighbour touches the shared parameter set first
        W = []
    for _ in range(k):
        R.append({"op": "persist", "n": 0})
        if rng.random() < 0.2:
            R.append({"op": "persist", "n": 0})
        if procs:
            R.append({"op": "reboot", "host": 0})
            rec = [{"op": "recover", "n": 0}]
            if len(nodes) > 4 and rng.random() < 0.5:
                rec.insert(rng.randrange(2), {"op": "recover", "n": 4})
            R += rec
        else:
            R += [{"op": "crash", "n": 0}, {"op": "recover", "n": 0}]
    R += W
    if rng.random() < 0.5:
        R.append({"op": "persist", "n": 0})
    U = [{"op": "boot", "n": 1}, {"op": "start", "n": 1}] + [{"op": "serialize", "n": 1}] * rng.choice([1, 1, 2, 3])
    T = [{"op": "boot", "n": 2}, {"op": "start", "n": 2}]
    P = [{"op": "boot", "n": 3}, {"op": "start", "n": 3}]
    if same_rng or rng.random() < 0.1:
        P += [{"op": "persist", "n": 3}, {"op": "crash", "n": 3}, {"op": "recover", "n": 3}]
    steps = gen.interleave(rng, [R, U, T, P])
    kind = rng.choice(INBOUND)
    if kind == "valid":
        f = None
    elif kind == "reflect":
        f = {"kind": "reflect", "label": {"A": 0x42, "B": 0x41, "S": 0x53}[cls]}
    elif kind == "own_side":
        f = {"kind": "side", "v": ord(cls) if cls != "S" else rng.choice([0x41, 0x42])}
    elif kind == "identity":
        f = {"kind": "substitute", "elem": "identity"}
    elif kind == "other_valid":
        f = {"kind": "substitute", "elem": rng.choice(["kG", "base", "M", "N", "S"]), "k": rng.randrange(2, 500)}
    else:
        f = faults.gen_fault(rng, 4, esize)
        if f["kind"] in ("replace",) or f.get("with") == "node" or f.get("elem") == "node":
            f = {"kind": "truncate", "n": rng.randrange(esize)}
    order = [0, 1, 2]
    rng.shuffle(order)
    for n in order:
        st = {"op": "deliver", "src": 3, "dst": n}
        if f:
            st["fault"] = f
        steps.append(st)
    if rng.random() < 0.3:
        # serialize again after finish and restore once more: still the same session data
        steps += [{"op": "serialize", "n": 1}]
    for st in steps:
        if st["op"] == "recover" and st["n"] == 0 and rng.random() < 0.12:
            st["blob_as"] = "bytearray"
            st["scrub"] = rng.random() < 0.7
    aborted = False
    if not procs and rng.random() < 0.15:
        # fault: library calls on R (and U) are aborted at an arbitrary instant by an injected
        # MemoryError / KeyboardInterrupt.  An aborted serialize() must leave the instance as it was;
        # an aborted from_serialized() is simply repeated; after an aborted finish() the application
        # falls back on the durable state (persist before, restore after, call again).
        aborted = True
        out = []
        started = set()
        for st in steps:
            n = st.get("n", st.get("dst"))
            op = st["op"]
            if n in (0, 1) and n in started and rng.random() < 0.4:
                bad = dict(st, interrupt=gen.gen_interrupt(rng))
                bad.pop("scrub", None)
                if op in ("persist", "serialize", "recover"):
                    out.append(bad)
                elif op == "deliver" and n == 0:
                    out += [{"op": "persist", "n": 0}, bad, {"op": "crash", "n": 0}, {"op": "recover", "n": 0}]
            if op == "start":
                started.add(n)
            out.append(st)
        steps = out
    cfg = {"psets": [pspec], "nodes": nodes}
    if procs:
        cfg["fresh_hosts"] = True
        if rng.random() < 0.3:
            cfg["python_O"] = True          # every simulated process of this run is started with -O
    if rng.random() < 0.1:
        for nd in nodes[:3]:
            nd["subclass"] = True           # the application uses its own subclass of the session class
    intent = {"inbound": kind, "cycles": k, "procs": procs}
    if aborted:
        intent["aborted_calls"] = True
    return {"property": PROP, "config": cfg, "steps": steps, "intent": intent}


class Oracle(Hooks):
    prop = PROP

    def __init__(self):
        self.blobs = {0: [], 1: [], 2: []}       # node -> [(instance generation, blob)]

    def after_step(self, w, step, ev):
        if ev.get("interrupted"):
            w.probe("aborted-call:" + ev["intr"]["api"])
            return                      # a call the simulator aborted: its outcome is not the library's
        if ev["op"] in ("persist", "serialize") and ev["out"].startswith("exc:") and ev["n"] in self.blobs:
            n = w.nodes[ev["n"]]
            if isinstance(n.out, bytes):
                self.flag(w, "serialize-raised", "serialize() raised %s on a started instance (%d restore cycle(s) so far)"
                          % (ev["out"][4:], n.restores), cls=n.cls, exc=ev["out"][4:], restored=n.restores > 0)
            return
        if ev["op"] == "recover" and ev["out"] == "inst" and ev["n"] == 0 and not getattr(w.nodes[0], "restored_type_ok", True):
            self.flag(w, "restored-other-class", "from_serialized() called on an application subclass returned an "
                      "instance of another class", cls=w.nodes[0].cls)
        if ev["op"] == "recover" and ev["out"].startswith("exc:") and ev["n"] == 0:
            n = w.nodes[0]
            self.flag(w, "restore-refused", "from_serialized() raised %s for state the same role wrote under the same "
                      "parameters (%s)" % (ev["out"][4:], "after a process restart" if w.reboots else "same process"),
                      cls=n.cls, exc=ev["out"][4:], after_process_restart=w.reboots > 0)
            return
        if ev["op"] in ("persist", "serialize") and ev["out"] == "blob" and ev["n"] in self.blobs:
            n = w.nodes[ev["n"]]
            blob = ev["blob"]
            gk = group_kind(w)
            # purity of serialize(): no entropy from the seam, none from os.urandom
            node_i, api, seam, trip = w.acct[-1]
            if api == "serialize" and (seam or trip):
                self.flag(w, "serialize-drew-entropy", "serialize() requested %d byte(s) from entropy_f and made %d "
                          "os.urandom call(s)" % (seam, trip), cls=n.cls)
            if not isinstance(blob, bytes):
                self.flag(w, "blob-not-bytes", "serialize() returned %s" % type(blob).__name__, cls=n.cls)
                return
            if any(c < 32 or c > 126 for c in blob):
                self.flag(w, "blob-not-printable", "serialize() output contains non-printable / non-ASCII bytes", cls=n.cls)
            try:
                d = json.loads(blob.decode("ascii"))
                if not isinstance(d, dict):
                    raise ValueError
            except Exception:
                self.flag(w, "blob-not-json-object", "serialize() output is not a JSON object", cls=n.cls)
                return
            prev = self.blobs[ev["n"]]
            if prev and prev[-1][0] == n.restores:
                if prev[-1][1] != blob:
                    self.flag(w, "serialize-not-repeatable", "two serialize() calls on one instance returned different bytes",
                              cls=n.cls)
                else:
                    w.probe("serialize-repeatable")
            prev.append((n.restores, blob, d))

    def finish(self, w):
        R, U, T = w.nodes[0], w.nodes[1], w.nodes[2]
        gk = group_kind(w)
        if not (isinstance(R.out, bytes) and R.out == U.out == T.out):
            w.probe("twins-diverged-at-start")
            w.nontrivial = False
            return
        if R.restores >= 3:
            w.probe("cycles>=3")
        # equivalent data along the whole chain and across twins
        ds = [x[2] for x in self.blobs[0]] + [x[2] for x in self.blobs[1]]
        if ds:
            if any(d != ds[0] for d in ds[1:]):
                self.flag(w, "blob-not-equivalent", "serialize() data differs between the original, its restored "
                          "descendants and its never-restored twin", cls=R.cls, group=gk)
            elif len(ds) > 1:
                w.probe("blob-json-equal")
        res = {}
        for n in (R, U, T):
            evs = [e for e in w.events if e["op"] == "deliver" and e["n"] == n.idx and e["out"] != "skip"
                   and not e.get("interrupted")]
            if not evs:
                res[n.idx] = None
                continue
            e = evs[0]
            res[n.idx] = ("key", e["key"]) if e["out"] == "key" else ("exc", e["out"][4:])
        if res[2] is None:
            w.nontrivial = False
            return
        kind = w.scn.get("intent", {}).get("inbound", "?")
        for name, n in (("restored", R), ("serialized", U)):
            r = res[n.idx]
            if r is None:
                continue
            if r != res[2]:
                self.flag(w, "behaviour-differs",
                          "%s instance (%d restore cycle(s)) gave %s, the untouched twin gave %s for the same inbound (%s)"
                          % (name, n.restores, r[0] + (":" + r[1] if r[0] == "exc" else ""),
                             res[2][0] + (":" + res[2][1] if res[2][0] == "exc" else ""), kind),
                          cls=n.cls, which=name, twin=res[2][0] if res[2][0] == "key" else res[2][1],
                          got=r[0] if r[0] == "key" else r[1])
            else:
                if r[0] == "key":
                    w.probe("same-key")
                else:
                    w.probe("same-error")
                    w.probe("same-error:" + r[1])
