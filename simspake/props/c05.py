"""C05 - inbound elements are decoded strictly (canonical, exact length, in subgroup)."""
from .. import gen, faults, worlds
from .common import Hooks, group_kind, group_family
from ..model.groups import BadElement

PROP = "C05"
SHADOW = False
CELLS_RULE = "(model rejection class or 'valid') x group kind x entry point (finish on fresh / finish on restored / bytes_to_element)"
EXPECT_PROBES = ["reject:length", "reject:field-overflow", "reject:off-curve", "reject:sign-on-x0",
                 "reject:identity", "reject:not-in-subgroup", "reject:zero", "valid-accepted"]

MALFORMED = ["truncate", "extend", "pad_leading_zero", "strip_leading", "noncanon", "torsion_shift",
             "small_order", "off_curve", "field_overflow", "non_member", "rand", "empty", "bitflip",
             "substitute", "textform"]


def gen_body(rng, gspec):
    g = worlds.model_group(gspec)
    r = rng.random()
    if r < 0.08:
        return {"kind": "valid", "k": rng.randrange(1, max(2, min(g.q, 1 << 20)))}
    if gspec["kind"] == "toyed" and r < 0.55:
        # every (y, sign) the toy field can express and some beyond, as 32-byte strings
        Q = g.Q
        y = rng.randrange(0, 4 * Q) if rng.random() < 0.9 else rng.choice([Q, Q + 1, 2 * Q + 1, (1 << 255) - 1, (1 << 255) - Q])
        sign = rng.randrange(2)
        return {"kind": "hex", "hex": ((y % (1 << 255)) | (sign << 255)).to_bytes(32, "little").hex()}
    if g.kind == "int" and g.elem_size <= 2 and r < 0.55:
        n = rng.choice([g.elem_size, g.elem_size, g.elem_size, 0, g.elem_size + 1, max(0, g.elem_size - 1)])
        return {"kind": "hex", "hex": bytes(rng.randrange(256) for _ in range(n)).hex()}
    if g.kind == "int" and rng.random() < 0.08:
        # an element of ANOTHER integer group (valid there), re-encoded at this group's width
        other = rng.choice(["i1024", "i2048", "i3072"])
        og = worlds.model_group({"kind": other})
        v = rng.choice([og.base, worlds.model_params({"group": {"kind": other}}).M,
                        worlds.model_params({"group": {"kind": other}}).N, og.mul(og.base, rng.randrange(2, 50))])
        raw = v.to_bytes(og.elem_size, "big")
        if g.elem_size >= og.elem_size:
            raw = raw.rjust(g.elem_size, b"\x00")
        else:
            raw = raw[-g.elem_size:]
        return {"kind": "hex", "hex": raw.hex(), "foreign": other}
    kind = rng.choice(MALFORMED)
    f = {"kind": kind, "base_k": rng.randrange(1, 50)}
    es = g.elem_size
    if kind == "truncate":
        f["n"] = 1 + rng.choice([0, 1, 5, es - 1, es - 2, rng.randrange(es + 1)]) % (es + 1)
    elif kind == "extend":
        f["with"] = rng.choice(["zero", "ff", "rand", "dup", "framing"])
        f["tail"] = rng.randrange(len(faults.FRAMING_TAILS))
        f["n"] = rng.choice([1, 1, 2, es, rng.randrange(1, 2 * es + 2)])
        f["seed"] = rng.randrange(1 << 16)
    elif kind == "noncanon":
        f["variant"] = rng.randrange(9)
    elif kind in ("torsion_shift", "small_order"):
        f["t"] = rng.randrange(8)
    elif kind == "field_overflow":
        f["v"] = rng.randrange(1 << 12)
    elif kind == "non_member":
        f["k"] = rng.randrange(1 << 16)
        f["t"] = rng.randrange(7)
    elif kind == "rand":
        f["n"] = rng.choice([es, es, es, rng.randrange(0, 2 * es + 3)])
        f["seed"] = rng.randrange(1 << 30)
    elif kind == "bitflip":
        f["i"] = 8 + rng.randrange(8 * es)
    elif kind == "substitute":
        f["elem"] = rng.choice(["identity", "identity", "base", "M", "N", "S", "kG"])
        f["k"] = rng.randrange(0, 50)
    elif kind == "textform":
        f["how"] = rng.choice(["hex", "HEX", "base64", "utf8", "utf8", "utf8_whole"])
        f["base_k"] = rng.randrange(1, 5000)
    return f


def generate(rng, tier="quick"):
    pspec = gen.gen_pspec(rng)
    gspec = pspec["group"]
    cls = rng.choice(["A", "B", "S"])
    node = {"cls": cls, "pw": gen.gen_bytes(rng).hex(), "pset": 0,
            "entropy": gen.gen_entropy(rng, gspec, 0.15)}
    cfg = {"psets": [pspec], "nodes": [node]}
    steps = []
    body = gen_body(rng, gspec)
    mode = rng.choice(["finish", "finish", "decode", "both"])
    if mode in ("decode", "both"):
        steps.append({"op": "decode", "pset": 0, "body": body})
    if mode in ("finish", "both"):
        steps += gen.gen_lifecycle(rng, 0, 2, rng.choice([0.0, 0.5]))
        steps.append({"op": "craft", "dst": 0, "label": "peer", "body": body})
    # dense windows over the encodings of small instances: every (y, sign) of a toy curve up
    # to 4Q in windows of 64 stratified on the run index; every 1-byte string of a 1-byte field
    g = worlds.model_group(gspec)
    idx = getattr(rng, "idx", rng.randrange(1 << 20))
    if gspec["kind"] == "toyed" and rng.random() < 0.5:
        y0 = (idx * 64) % (4 * g.Q)
        for y in range(y0, y0 + 64):
            for sign in (0, 1):
                steps.append({"op": "decode", "pset": 0,
                              "body": {"kind": "hex", "hex": (y | (sign << 255)).to_bytes(32, "little").hex()}})
        scan = "toy-window"
    elif g.kind == "int" and g.elem_size == 1 and rng.random() < 0.5:
        for v in range(256):
            steps.append({"op": "decode", "pset": 0, "body": {"kind": "hex", "hex": "%02x" % v}})
        steps.append({"op": "decode", "pset": 0, "body": {"kind": "hex", "hex": ""}})
        scan = "one-byte-field-all"
    elif g.kind == "int" and g.elem_size == 2 and rng.random() < 0.5:
        v0 = (idx * 256) % 65536
        for v in range(v0, v0 + 256):
            steps.append({"op": "decode", "pset": 0, "body": {"kind": "hex", "hex": "%04x" % v}})
        scan = "two-byte-field-window"
    else:
        scan = None
    # a few more strings against the decoder in the same run; some offered twice in a row
    # (a decoder must not become lenient because it has seen a string before)
    for _ in range(rng.choice([0, 0, 1, 3])):
        b2 = gen_body(rng, gspec)
        for _ in range(rng.choice([1, 1, 2, 3])):
            steps.append({"op": "decode", "pset": 0, "body": b2})
    if rng.random() < 0.25:
        # ... and elements of the other shipped integer groups first validated by their own group
        other = rng.choice(["i1024", "i2048"])
        if gspec["kind"] in ("i1024", "i2048", "i3072") and other != gspec["kind"]:
            cfg["psets"].append({"group": {"kind": other}})
            ob = {"kind": "valid", "k": rng.randrange(2, 50)}
            steps.insert(0, {"op": "decode", "pset": 1, "body": ob})
            og = worlds.model_group({"kind": other})
            raw = og.enc(og.mul(og.base, ob["k"]))
            es = worlds.model_group(gspec).elem_size
            raw = raw.rjust(es, b"\x00") if es >= len(raw) else raw[-es:]
            steps.append({"op": "decode", "pset": 0, "body": {"kind": "hex", "hex": raw.hex()}})
    if worlds.model_group(gspec).kind == "ed" and rng.random() < 0.15:
        # the application also uses the library's lenient public decoder (accepts any curve point)
        # on some strings first; the strict decoder must not care
        aux = [{"op": "aux", "pset": 0, "fn": "bytes_to_unknown_group_element", "body": gen_body(rng, gspec)}
               for _ in range(rng.choice([1, 2, 3]))]
        steps = aux + steps
    scn = {"property": PROP, "config": cfg, "steps": steps}
    if scan:
        scn["intent"] = {"scan": scan}
    return scn


class Oracle(Hooks):
    prop = PROP

    def __init__(self):
        self.cells = set()

    def after_step(self, w, step, ev):
        if ev["op"] not in ("craft", "decode") or ev["out"] == "skip":
            return
        if ev["op"] == "craft":
            dst = w.nodes[ev["n"]]
            pset = dst.cur_pset
            b = ev["wire"][1:]
            via = "finish-restored" if dst.restores else "finish"
            accepted = ev["out"] == "key"
        else:
            pset = ev["pset"]
            b = ev["wire"]
            via = "decode"
            accepted = ev["out"] == "elem"
        g = worlds.model_group(w.psets[pset]["group"])
        gk = group_kind(w, pset)
        try:
            g.dec_strict(b)
            reason = None
        except BadElement as e:
            reason = e.reason
        self.cells.add("%s|%s|%s" % (reason or "valid", gk, via))
        w.cells = self.cells
        if reason is None:
            if accepted:
                w.probe("valid-accepted")
                if ev["op"] == "decode" and ev["back"] != b:
                    self.flag(w, "reencode-differs", "accepted element does not re-encode to its input",
                              group=gk, via=via)
            return
        w.probe("reject:" + reason)
        if w.scn.get("intent", {}).get("scan"):
            w.probe("scan:" + w.scn["intent"]["scan"])
        if accepted:
            self.flag(w, "accepted-malformed",
                      "%s accepted a %d-byte string that is not the canonical encoding of a subgroup element (%s): %s"
                      % ("finish()" if via != "decode" else "bytes_to_element()", len(b), reason, b.hex()[:80]),
                      reason=reason, family=group_family(w, pset), via="finish" if via != "decode" else "decode")
        elif ev["op"] == "decode" and ev["back"] is not None and ev["back"] != b:
            self.flag(w, "reencode-differs", "accepted element does not re-encode to its input", group=gk, via=via)
