"""C01 - key agreement under an honest network and any crash/restore placement."""
from .. import gen, worlds
from .common import Hooks, place, body_of, identity_bytes, group_family, group_kind

PROP = "C01"
SHADOW = False


def near_twin_scalars(rng, pspec, pw, k_bytes, where, cap=60000):
    """two secret scalars whose Symmetric start() messages agree in their first (or last) k bytes
    but differ elsewhere - found by a birthday walk over x*G + w*S in the reference model.
    (Ordering / comparison of the two messages must use ALL their bytes.)"""
    from .. import worlds
    mp = worlds.model_params(pspec)
    g = mp.group
    if g.kind != "int" or g.elem_size <= k_bytes:
        return None
    blind = g.mul(mp.S, g.pw_scalar(pw))
    x0 = rng.randrange(g.q)
    e = g.add(g.mul(g.base, x0), blind)
    seen = {}
    for i in range(min(cap, g.q)):
        enc = g.enc(e)
        key = enc[:k_bytes] if where == "prefix" else enc[-k_bytes:]
        if key in seen and seen[key][1] != enc:
            return seen[key][0], (x0 + i) % g.q
        seen.setdefault(key, ((x0 + i) % g.q, enc))
        e = g.add(e, g.base)
    return None


def generate(rng, tier="quick"):
    if rng.random() < 0.05:
        # two Symmetric ends whose messages share a long prefix or suffix
        for _ in range(4):
            cfg = gen.gen_base_config(rng, flavour="S", mix=[("small", 1)])
            ps = cfg["psets"][0]
            es = worlds.model_group(ps["group"]).elem_size
            if es < 2:
                continue
            k = rng.choice([es - 1, max(1, es - 2), 1, min(4, es - 1)])
            tw = near_twin_scalars(rng, ps, bytes.fromhex(cfg["nodes"][0]["pw"]), k, rng.choice(["prefix", "prefix", "suffix"]))
            if tw is None:
                continue
            for nd, x in zip(cfg["nodes"], tw):
                nd["entropy"] = {"mode": "target", "v": str(x), "seed": rng.randrange(1 << 30)}
            steps = []
            for n in (0, 1):
                steps += gen.gen_lifecycle(rng, n, 1, 0.3)
            order = [(1, 0), (0, 1)]
            rng.shuffle(order)
            for src, dst in order:
                steps.append({"op": "deliver", "src": src, "dst": dst})
            return {"property": PROP, "config": cfg, "steps": steps, "intent": {"near_twin_bytes": k}}
    cfg = gen.gen_base_config(rng)
    q = gen.order_of(cfg["psets"][0]["group"])
    if q <= 64 and rng.random() < 0.4:
        # tiny groups: walk ALL pairs of secret scalars along the run index
        idx = getattr(rng, "idx", rng.randrange(1 << 20))
        cfg["nodes"][0]["entropy"] = {"mode": "target", "v": str(idx % q), "seed": rng.randrange(1 << 30)}
        cfg["nodes"][1]["entropy"] = {"mode": "target", "v": str((idx // q) % q), "seed": rng.randrange(1 << 30)}
    pc = rng.choice([0.0, 0.3, 0.5, 0.8])
    maxc = rng.choice([1, 2, 3, 6])
    # in some runs a "crash" is the death of the whole process (fresh copy of the library
    # afterwards: nothing memoised survives), each node being its own process
    procs = rng.random() < 0.08 and cfg["psets"][0]["group"]["kind"] in gen.CHEAP_TO_REIMPORT
    if procs:
        cfg["fresh_hosts"] = True
        cfg["nodes"][0]["host"], cfg["nodes"][1]["host"] = 0, 1
    steps = gen.interleave(rng, [gen.gen_lifecycle(rng, 0, maxc, pc, reboot_host=0 if procs else None),
                                 gen.gen_lifecycle(rng, 1, maxc, pc, reboot_host=1 if procs else None)])
    if procs and rng.random() < 0.6:
        # an unrelated session of the OTHER protocol flavour lives in node 0's process and uses the
        # same parameter-set object before (or after) it
        fam = cfg["nodes"][0]["cls"]
        nb = {"cls": "S" if fam in "AB" else rng.choice(["A", "B"]), "pw": gen.gen_bytes(rng).hex(), "pset": 0,
              "host": 0, "entropy": {"mode": "uniform", "seed": rng.randrange(1 << 40)}}
        cfg["nodes"].append(nb)
        life = [{"op": "boot", "n": 2}, {"op": "start", "n": 2}, {"op": "persist", "n": 2}]
        steps = life + steps if rng.random() < 0.7 else steps + life
    # honest network: delay / reorder / duplicate only
    order = [(1, 0), (0, 1)]
    rng.shuffle(order)
    for src, dst in order:
        place(rng, steps, {"op": "deliver", "src": src, "dst": dst}, [src, dst], [dst])
    if rng.random() < 0.25:
        src, dst = rng.choice(order)
        steps.append({"op": "recover", "n": dst})
        steps.append({"op": "deliver", "src": src, "dst": dst})
    intent = None
    if not procs and rng.random() < 0.15:
        # a busy process: a second honest exchange (same or other flavour, own password and identities, same
        # parameter-set object) runs concurrently in the same process, its calls interleaved with the first
        cfg2 = gen.gen_base_config(rng, flavour=rng.choice([None, "AB", "AB", "S"]), mix=[("small", 1)])
        same_pw = rng.random() < 0.3
        for nd in cfg2["nodes"]:
            nd["pset"] = 0
            nd["entropy"] = gen.gen_entropy(rng, cfg["psets"][0]["group"], 0.2)
            if same_pw:
                nd["pw"] = cfg["nodes"][0]["pw"]
        cfg["nodes"] += cfg2["nodes"]
        lanes2 = gen.interleave(rng, [gen.gen_lifecycle(rng, 2, 2, 0.3), gen.gen_lifecycle(rng, 3, 2, 0.3)])
        order2 = [(3, 2), (2, 3)]
        rng.shuffle(order2)
        lanes2 += [{"op": "deliver", "src": s_, "dst": d_} for s_, d_ in order2]
        steps = gen.interleave(rng, [steps, lanes2])
        intent = {"pairs": 2}
    elif not procs and rng.random() < 0.12:
        # fault: a library call is aborted at an arbitrary instant (allocation failure, signal) and the
        # application falls back on what is durable: it persists before the call, and after the
        # aborted call drops the instance, restores it and calls again
        steps = inject_aborted_calls(rng, steps)
        intent = {"aborted_calls": True}
    scn = {"property": PROP, "config": cfg, "steps": steps}
    if intent:
        scn["intent"] = intent
    return scn


def inject_aborted_calls(rng, steps, nodes=(0, 1), p=0.5):
    out = []
    started = set()
    for st in steps:
        n = st.get("n", st.get("dst"))
        op = st["op"]
        if n in nodes and n in started and op in ("deliver", "persist", "recover") and rng.random() < p:
            bad = dict(st, interrupt=gen.gen_interrupt(rng))
            if op == "deliver":
                out += [{"op": "persist", "n": n}, bad, {"op": "crash", "n": n}, {"op": "recover", "n": n}]
            elif op == "persist":
                out += [bad]                       # the application simply tries again
            else:
                out += [bad]
        if op == "start":
            started.add(n)
        out.append(st)
    return out


class Oracle(Hooks):
    prop = PROP

    def finish(self, w):
        self._judge(w, w.nodes[0], w.nodes[1])
        if (w.scn.get("intent") or {}).get("pairs") == 2 and len(w.nodes) >= 4:
            w.probe("concurrent-pairs")
            self._judge(w, w.nodes[2], w.nodes[3])

    def _judge(self, w, a, b):
        pair = (a.idx, b.idx)
        events = [e for e in w.events if e["n"] in pair]
        fam = group_family(w)
        gk = group_kind(w)
        for n in (a, b):
            if n.booted and n.out is None and not n.lost and n.entropy.mode != "fail":
                started = [c for c in events if c["op"] == "start" and c["n"] == n.idx]
                if started and started[0]["out"].startswith("exc"):
                    self.flag(w, "start-failed", "honest start() raised %s" % started[0]["out"],
                              group=gk, cls=n.cls, exc=started[0]["out"])
        # "...also when either end was persisted with serialize() and revived with
        # from_serialized() in between": an honest persist or restore must not fail
        for e in events:
            if e.get("interrupted"):
                w.probe("aborted-call:" + e["intr"]["api"])
                continue                # a call the simulator aborted: its outcome is not the library's
            if e["op"] in ("recover", "persist") and e["out"].startswith("exc:"):
                n = w.nodes[e["n"]]
                if e["op"] == "persist" and n.out is None:
                    continue
                self.flag(w, "persist-restore-failed", "%s raised %s on an honest %s" %
                          ("from_serialized()" if e["op"] == "recover" else "serialize()", e["out"][4:],
                           "restore under the same role and parameters" if e["op"] == "recover" else "started instance"),
                          group=gk, cls=n.cls, op=e["op"], exc=e["out"][4:])
                return
        # every key ever returned in this exchange must be the same 32 bytes
        keys = [(e["n"], e["key"]) for e in events if e["op"] == "deliver" and e["out"] == "key" and not e.get("interrupted")]
        for n, k in keys:
            if not isinstance(k, bytes) or len(k) != 32:
                self.flag(w, "key-shape", "finish() returned %r" % (k,), group=gk)
                return
        if len(set(k for _, k in keys)) > 1:
            self.flag(w, "keys-differ", "matching inputs, honest delivery, keys differ", group=gk,
                      flavour=a.cls + b.cls, restores=min(2, a.restores + b.restores))
        if keys:
            w.probe("agreed" if len(keys) >= 2 else "one-key")
        # exceptions: only the two degenerate coincidences are allowed
        ident = identity_bytes(w)
        for e in events:
            if e["op"] != "deliver" or not e["out"].startswith("exc") or e.get("interrupted"):
                continue
            dst = w.nodes[e["n"]]
            exc = e["out"][4:]
            if exc == "OnlyCallFinishOnce" and any(x["i"] < e["i"] and x["op"] == "deliver" and x["n"] == e["n"]
                                                   and x["out"] != "skip" for x in events):
                continue            # duplicate delivery to a finished instance
            src = b if dst is a else a
            if exc == "ReflectionThwarted" and body_of(a.out) == body_of(b.out):
                w.probe("equal-blinded-elements")
                continue
            if fam == "ed" and body_of(src.out) == ident:
                w.probe("identity-outbound")
                continue
            self.flag(w, "honest-finish-raised", "finish() raised %s on an unmodified message" % exc,
                      group=gk, cls=dst.cls, exc=exc, restored=dst.restores > 0)
        if a.restores + b.restores >= 2:
            w.probe("ge2-restores")
        if a.lost or b.lost:
            w.probe("lost-session")
