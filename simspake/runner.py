"""Batch driver: seeded search over scenarios, minimisation, replay, evidence."""
import argparse
import concurrent.futures as cf
import faulthandler
import hashlib
import importlib
import json
import multiprocessing as mp
import os
import random
import subprocess
import sys
import time
import traceback

ROOT = os.path.dirname(os.path.dirname(os.path.abspath(__file__)))

PROPS = ["C01", "C02", "C03", "C05", "C06", "C07", "C08", "C09", "C10", "C11", "C16"]

# runs per tier (sized for ~30-45 s quick / ~8-10 min thorough on 16 cores)
BUDGET = {
    "C01": (6000, 120000), "C02": (8000, 160000), "C03": (5000, 100000),
    "C05": (10000, 200000), "C06": (8000, 160000), "C07": (16000, 320000),
    "C08": (3500, 70000), "C09": (3000, 60000), "C10": (6000, 120000),
    "C11": (2000, 40000), "C16": (1600, 32000),
}
WALL_CAP = {"quick": 150.0, "thorough": 1500.0}
CHUNK = {"C07": 250, "C05": 125, "C06": 100, "C11": 25, "C16": 20, "C09": 40}
DEFAULT_CHUNK = 50


def load_prop(pid):
    return importlib.import_module("simspake.props." + pid.lower())


def run_seed(pid, seed, idx):
    h = hashlib.sha256(("simspake|%s|%d|%d" % (pid, seed, idx)).encode()).digest()
    return int.from_bytes(h[:8], "big")


def generate(pm, pid, seed, idx, tier):
    rng = random.Random(run_seed(pid, seed, idx))
    rng.idx = idx
    scn = pm.generate(rng, tier)
    scn["property"] = pid
    scn["seed"] = seed
    scn["run"] = idx
    return scn


def execute(pm, scn):
    from . import sim
    if hasattr(pm, "execute"):
        return pm.execute(scn)
    return sim.run_scenario(scn, shadow=getattr(pm, "SHADOW", False), hooks=pm.Oracle())


def jsonable(o):
    if isinstance(o, bytes):
        return o.hex()
    if isinstance(o, dict):
        return {k: jsonable(v) for k, v in o.items()}
    if isinstance(o, (list, tuple)):
        return [jsonable(v) for v in o]
    return o


# ---------------------------------------------------------------------------------
# worker
# ---------------------------------------------------------------------------------

def in_fork(fn, timeout=3600):
    """run fn() in a forked child of this process and return its (pickled) result.  The
    parent never executes library sessions itself, so every child starts from the same
    pristine library state: what a run does cannot depend on which worker ran it."""
    import pickle
    import select
    import signal
    r, wfd = os.pipe()
    cpid = os.fork()
    if cpid == 0:
        code = 0
        try:
            os.close(r)
            try:
                data = pickle.dumps(("ok", fn()))
            except BaseException:          # noqa
                data = pickle.dumps(("err", traceback.format_exc()[-3000:]))
            with os.fdopen(wfd, "wb") as f:
                f.write(data)
        except BaseException:              # noqa
            code = 3
        finally:
            os._exit(code)
    os.close(wfd)
    chunks = []
    deadline = time.time() + timeout
    with os.fdopen(r, "rb") as f:
        while True:
            left = deadline - time.time()
            if left <= 0:
                os.kill(cpid, signal.SIGKILL)
                os.waitpid(cpid, 0)
                raise RuntimeError("forked execution timed out")
            rd, _, _ = select.select([f], [], [], min(left, 10))
            if rd:
                b = os.read(f.fileno(), 1 << 20)
                if not b:
                    break
                chunks.append(b)
    os.waitpid(cpid, 0)
    data = b"".join(chunks)
    if not data:
        raise RuntimeError("forked execution died without a result (hang watchdog or crash)")
    kind, val = pickle.loads(data)
    if kind == "err":
        raise RuntimeError("forked execution failed:\n" + val)
    return val


def _chunk(args):
    """one chunk of consecutive run indices = one simulated long-running process: executed in
    a forked child of the pristine worker, runs one after the other in that child"""
    return in_fork(lambda: _chunk_body(args))


def _chunk_body(args):
    pid, seed, lo, hi, tier = args
    faulthandler.enable()
    from . import sim, gen, worlds
    pm = load_prop(pid)
    st = {"lo": lo, "hi": hi, "runs": 0, "nontrivial": 0, "fired": {}, "probes": {}, "outcomes": {},
          "shapes": set(), "nt_shapes": set(), "cells": set(), "violations": [], "samples": [],
          "digest": hashlib.sha256(), "ticks": 0, "skipped_steps": 0, "toy_skipped": 0,
          "errors": [], "steps": 0, "perrun": []}
    per_run_cap = int(os.environ.get("VERIF_RUN_TIMEOUT", "300"))
    for idx in range(lo, hi):
        # a hang (in the library under a mutant, or in the harness) kills this worker with a
        # traceback; the batch then ends as HARNESS-ERROR (exit 2), never as success
        faulthandler.dump_traceback_later(per_run_cap, exit=True)
        try:
            scn = generate(pm, pid, seed, idx, tier)
            try:
                w = execute(pm, scn)
            except worlds.ToyUnavailable as e:
                st["toy_skipped"] += 1
                st["perrun"].append("toy-skip")
                continue
        except Exception:
            st["errors"].append("run %d: %s" % (idx, traceback.format_exc()[-1500:]))
            if len(st["errors"]) > 3:
                break
            continue
        st["runs"] += 1
        d = sim.log_digest(w)
        st["digest"].update(d.encode())
        st["perrun"].append(d)
        st["ticks"] += w.tick
        st["steps"] += len(scn["steps"])
        st["skipped_steps"] += w.skipped
        for k, v in w.fired.items():
            st["fired"][k] = st["fired"].get(k, 0) + v
        for k, v in w.probes.items():
            st["probes"][k] = st["probes"].get(k, 0) + v
        for ev in w.events:
            k = ev["op"] + ":" + ev["out"]
            st["outcomes"][k] = st["outcomes"].get(k, 0) + 1
        shape = hashlib.sha256(gen.shape_of(scn).encode()).digest()[:8]
        st["shapes"].add(shape)
        nt = getattr(w, "nontrivial", None)
        if nt is None:
            nt = any(ev["op"] in ("deliver", "craft", "decode", "call", "sweep", "recover") and ev["out"] != "skip"
                     for ev in w.events)
        if nt:
            st["nontrivial"] += 1
            st["nt_shapes"].add(shape)
        for c in getattr(w, "cells", ()):
            st["cells"].add(c)
        if len(st["samples"]) < 2 and nt:
            st["samples"].append({"scenario": scn, "log": sim.log_lines(w)[:40]})
        for f in w.findings:
            if len(st["violations"]) < 40:
                st["violations"].append({"scenario": scn, "sig": f["sig"], "msg": f["msg"], "chunk_lo": lo})
            st.setdefault("nviol", 0)
            st["nviol"] = st.get("nviol", 0) + 1
    faulthandler.cancel_dump_traceback_later()
    st["digest"] = st["digest"].hexdigest()
    return st


# ---------------------------------------------------------------------------------
# minimisation
# ---------------------------------------------------------------------------------

def sig_key(sig):
    return json.dumps(sig, sort_keys=True)


def execute_with_prelude(pm, scn):
    """the scenario's "prelude" (earlier runs of the same simulated process) is executed
    first, without judging it; then the scenario itself"""
    from . import worlds
    for pre in scn.get("prelude", []):
        try:
            execute(pm, pre)
        except worlds.ToyUnavailable:
            pass
    return execute(pm, scn)


def _repro_job(pid, scn, sig):
    from . import worlds, sim
    pm = load_prop(pid)
    try:
        w = execute_with_prelude(pm, scn)
    except worlds.ToyUnavailable:
        return False, None, []
    except Exception:
        return False, None, []
    want = sig_key(sig)
    hit = any(sig_key(f["sig"]) == want for f in w.findings)
    return hit, sim.log_digest(w), sim.log_lines(w)


def reproduces(pm, scn, sig):
    """always in a forked child: the calling process stays pristine"""
    try:
        return in_fork(lambda: _repro_job(scn["property"], scn, sig), timeout=900)[0]
    except RuntimeError:
        return False


def shrink(pm, scn, sig, budget=300, wall=120.0):
    """ddmin over the step list, then per-step and configuration simplification; a
    candidate is kept only if the same signature is violated"""
    execs = [0]
    t_end = time.time() + wall

    def test(cand):
        if execs[0] >= budget or time.time() > t_end:
            return False
        execs[0] += 1
        return reproduces(pm, cand, sig)

    cur = json.loads(json.dumps(scn))
    # earlier runs of the same process, if the violation needs them: minimise that list first
    pre = cur.get("prelude", [])
    if pre:
        # shortest reproducing suffix by doubling, then ddmin inside it
        k = 1
        while k < len(pre):
            if test(dict(cur, prelude=pre[-k:])):
                pre = pre[-k:]
                break
            k *= 2
        nn = 2
        while len(pre) >= 2 and time.time() < t_end - wall / 2:
            size = max(1, len(pre) // nn)
            removed = False
            for i in range(0, len(pre), size):
                cand = pre[:i] + pre[i + size:]
                if test(dict(cur, prelude=cand)):
                    pre = cand
                    nn = max(nn - 1, 2)
                    removed = True
                    break
            if not removed:
                if size == 1:
                    break
                nn = min(len(pre), nn * 2)
        cur["prelude"] = pre
    steps = cur["steps"]
    n = 2
    while len(steps) >= 2 and execs[0] < budget:
        size = max(1, len(steps) // n)
        removed = False
        for i in range(0, len(steps), size):
            cand_steps = steps[:i] + steps[i + size:]
            cand = dict(cur, steps=cand_steps)
            if cand_steps and test(cand):
                steps = cand_steps
                cur = cand
                n = max(n - 1, 2)
                removed = True
                break
        if not removed:
            if size == 1:
                break
            n = min(len(steps), n * 2)
    # per-step simplification
    for i, s in enumerate(list(cur["steps"])):
        for key in ("reencode", "fmt", "interrupt", "blob_as", "as"):
            if key in s:
                c = json.loads(json.dumps(cur))
                del c["steps"][i][key]
                if test(c):
                    cur = c
        f = s.get("fault") or s.get("body")
        if f:
            for key in ("n", "i", "seed", "k", "t", "v", "times"):
                if key in f and f[key] not in (0, None):
                    for val in (0, 1):
                        c = json.loads(json.dumps(cur))
                        ff = c["steps"][i].get("fault") or c["steps"][i].get("body")
                        ff[key] = val
                        if test(c):
                            cur = c
                            break
    # configuration simplification
    for ni, nd in enumerate(cur["config"]["nodes"]):
        for key, vals in (("pw", ["", "61"]), ("idA", [""]), ("idB", [""]), ("idS", [""])):
            if nd.get(key):
                for val in vals:
                    c = json.loads(json.dumps(cur))
                    # keep matching nodes matching: apply to every node holding the same value
                    old = nd[key]
                    for other in c["config"]["nodes"]:
                        if other.get(key) == old:
                            other[key] = val
                    if test(c):
                        cur = c
                        break
        e = nd.get("entropy") or {}
        if e.get("mode") not in (None, "zeros"):
            for ent in ({"mode": "zeros"}, {"mode": "uniform", "seed": 0}):
                c = json.loads(json.dumps(cur))
                c["config"]["nodes"][ni]["entropy"] = ent
                if test(c):
                    cur = c
                    break
    for ps in cur["config"]["psets"]:
        for key in ("M", "N", "S"):
            if key in ps:
                c = json.loads(json.dumps(cur))
                for q in c["config"]["psets"]:
                    q.pop(key, None)
                if test(c):
                    cur = c
                    break
    cur["shrink_execs"] = execs[0]
    return cur


# ---------------------------------------------------------------------------------
# known findings
# ---------------------------------------------------------------------------------

def load_known():
    p = os.path.join(ROOT, "known_findings.json")
    if not os.path.exists(p):
        return []
    with open(p) as f:
        return json.load(f).get("findings", [])


def match_known(sig, known):
    for k in known:
        if k.get("status") != "open" or k.get("property") != sig.get("property"):
            continue
        if all(sig.get(a) == b for a, b in k.get("match", {}).items()):
            return k
    return None


# ---------------------------------------------------------------------------------
# replay
# ---------------------------------------------------------------------------------

def replay_file(path, quiet=False):
    from . import sim
    with open(path) as f:
        rep = json.load(f)
    pid = rep["property"]
    pm = load_prop(pid)
    w = execute_with_prelude(pm, rep)
    want = rep.get("expect", {})
    got = [f for f in w.findings]
    dig = sim.log_digest(w)
    if not quiet:
        for line in sim.log_lines(w):
            print("  " + line)
        print("log digest", dig)
    hit = [f for f in got if not want.get("sig") or sig_key(f["sig"]) == sig_key(want["sig"])]
    return pid, hit, dig, want


def verify_fresh(path):
    """re-execute a replay file in a fresh interpreter; returns (reproduced, digest)"""
    env = dict(os.environ)
    env["PYTHONHASHSEED"] = "0"
    cmd = [sys.executable, os.path.join(ROOT, "simspake", "main.py"), "replay-verify", path]
    try:
        out = subprocess.run(cmd, env=env, capture_output=True, text=True, timeout=600)
    except subprocess.TimeoutExpired:
        return False, "timeout"
    for line in out.stdout.splitlines():
        if line.startswith("REPLAY-RESULT "):
            parts = line.split()
            return parts[1] == "reproduced", parts[2]
    return False, "no-result: " + out.stderr[-300:]


# ---------------------------------------------------------------------------------
# batch
# ---------------------------------------------------------------------------------

def run_batch(pid, tier, seed, workers=None, runs=None, write_evidence=True, quiet=False):
    t0 = time.time()
    pm = load_prop(pid)
    nq, nt = BUDGET[pid]
    total = runs if runs is not None else (nq if tier == "quick" else nt)
    if os.environ.get("VERIF_RUNS"):
        total = int(os.environ["VERIF_RUNS"])
    workers = workers or int(os.environ.get("VERIF_WORKERS", "0")) or min(16, os.cpu_count() or 4)
    # the library is imported once here (fresh from the working tree); workers are forks
    from . import loader, selfcheck
    lib = loader.load()
    err = selfcheck.model_vs_golden()
    if err:
        print("HARNESS-ERROR model/golden mismatch: %s" % err)
        return 2
    # warm the harness-side (reference model) caches in this pristine process so that the
    # forked chunk children inherit them; library-side state is never warmed
    from . import worlds, gen
    for kind in ("ed25519", "i1024", "i2048", "i3072"):
        g = worlds.model_params({"group": {"kind": kind}}).group
        if g.kind == "ed":
            g.torsion_points()
    for (Q, d, L) in worlds.TOY_CURVES:
        worlds.model_params({"group": {"kind": "toyed", "Q": Q, "d": d, "L": L}}).group.torsion_points()
    for gs in gen.big_groups():
        worlds.model_params({"group": gs})
    if hasattr(pm, "prepare"):
        pm.prepare()
    # fixed chunk size (independent of the worker count): a chunk is one simulated process
    # lifetime, so which runs share a process is a function of the run index only
    chunk = CHUNK.get(pid, DEFAULT_CHUNK)
    jobs = [(pid, seed, lo, min(total, lo + chunk), tier) for lo in range(0, total, chunk)]
    results = {}
    cap = float(os.environ.get("VERIF_WALL_CAP", WALL_CAP[tier]))
    capped = False
    ctx = mp.get_context("fork")
    if workers == 1:
        for j in jobs:
            results[j[2]] = _chunk(j)
            if time.time() - t0 > cap:
                capped = True
                break
    else:
        with cf.ProcessPoolExecutor(max_workers=workers, mp_context=ctx) as ex:
            futs = {}
            it = iter(jobs)
            pending = set()
            for j in it:
                f = ex.submit(_chunk, j)
                futs[f] = j
                pending.add(f)
                if len(pending) >= workers * 2:
                    break
            while pending:
                done, pending = cf.wait(pending, timeout=30, return_when=cf.FIRST_COMPLETED)
                for f in done:
                    try:
                        results[futs[f][2]] = f.result()
                    except Exception as e:
                        print("HARNESS-ERROR worker died on chunk %r: %r" % (futs[f][:4], e))
                        return 2
                    if time.time() - t0 > cap:
                        capped = True
                    elif not capped:
                        j = next(it, None)
                        if j is not None:
                            nf = ex.submit(_chunk, j)
                            futs[nf] = j
                            pending.add(nf)
                if time.time() - t0 > cap * 1.5 and pending:
                    print("HARNESS-ERROR wall cap exceeded with workers still busy")
                    for f in pending:
                        f.cancel()
                    return 2
    # merge in index order
    agg = {"runs": 0, "nontrivial": 0, "fired": {}, "probes": {}, "outcomes": {}, "shapes": set(),
           "nt_shapes": set(), "cells": set(), "violations": [], "samples": [], "ticks": 0,
           "skipped_steps": 0, "toy_skipped": 0, "errors": [], "steps": 0, "nviol": 0}
    dg = hashlib.sha256()
    for lo in sorted(results):
        st = results[lo]
        dg.update("".join(st["perrun"]).encode())
        for k in ("runs", "nontrivial", "ticks", "skipped_steps", "toy_skipped", "steps"):
            agg[k] += st[k]
        agg["nviol"] += st.get("nviol", 0)
        for k in ("fired", "probes", "outcomes"):
            for a, b in st[k].items():
                agg[k][a] = agg[k].get(a, 0) + b
        for k in ("shapes", "nt_shapes", "cells"):
            agg[k] |= st[k]
        agg["violations"] += st["violations"]
        if len(agg["samples"]) < 3:
            agg["samples"] += st["samples"][:1]
        agg["errors"] += st["errors"]
    batch_digest = dg.hexdigest()[:16]
    wall_search = time.time() - t0
    rc = 0
    if agg["errors"]:
        print("HARNESS-ERROR %d run(s) raised inside the harness; first:\n%s" % (len(agg["errors"]), agg["errors"][0]))
        rc = 2
    min_runs = total if not capped else total // 4
    if agg["runs"] + agg["toy_skipped"] < min_runs:
        print("HARNESS-ERROR only %d of %d runs completed before the wall cap" % (agg["runs"], total))
        rc = 2

    # violations -> known findings / minimise / replay
    known = load_known()
    seen_known = {}
    fresh = {}
    for v in agg["violations"]:
        k = match_known(v["sig"], known)
        if k is not None:
            seen_known.setdefault(k["what"], [0, k])[0] += 1
            continue
        fresh.setdefault(sig_key(v["sig"]), v)
    for what, (cnt, k) in seen_known.items():
        print("KNOWN-FINDING: property=%s %s (matched %d run(s))" % (k["property"], what, cnt))
    nreported = 0
    unconfirmed = []
    os.makedirs(os.path.join(ROOT, "replays"), exist_ok=True)
    for key, v in list(fresh.items())[:4]:
        scn = v["scenario"]
        if not reproduces(pm, scn, v["sig"]):
            # not reproducible alone: it needs what earlier runs of the same simulated process
            # left behind (state leaking between sessions).  Replay them as a prelude.
            lo = v.get("chunk_lo", scn.get("run", 0))
            scn = dict(scn, prelude=[generate(pm, pid, seed, i, tier) for i in range(lo, scn.get("run", lo))])
        small = shrink(pm, scn, v["sig"])
        small["expect"] = {"sig": v["sig"], "msg": v["msg"]}
        try:
            hit, dig, lines = in_fork(lambda: _repro_job(pid, small, v["sig"]), timeout=900)
            small["expect"]["digest"] = dig
            small["log"] = lines
        except Exception as e:
            small["log"] = ["(re-execution failed: %r)" % (e,)]
        path = os.path.join(ROOT, "replays", "%s-%d-%d.json" % (pid, seed, scn.get("run", 0)))
        with open(path, "w") as f:
            json.dump(jsonable(small), f, indent=1, sort_keys=True)
        ok, dig = verify_fresh(path)
        unstable = False
        if ok and dig != small["expect"].get("digest"):
            # the same violation (same signature) in a fresh interpreter, but another event log: what the
            # library RETURNS differs from process to process (e.g. an object address leaks into its
            # output).  Accept if two more fresh interpreters both violate the same signature.
            ok_b, dig_b = verify_fresh(path)
            ok_c, dig_c = verify_fresh(path)
            unstable = ok_b and ok_c
        if ok and (dig == small["expect"].get("digest") or unstable):
            print("VIOLATION property=%s replay=%s" % (pid, path))
            print("  clause=%s :: %s" % (v["sig"].get("clause"), v["msg"]))
            print("  signature=%s steps=%d (from %d)" % (key, len(small["steps"]), len(scn["steps"])))
            if unstable:
                print("  (reproduces with this signature in every fresh interpreter; the event-log digest differs "
                      "between processes - the library's output depends on process state such as object addresses)")
                small["expect"]["digest"] = None
                small["expect"]["output_differs_between_processes"] = True
                with open(path, "w") as f:
                    json.dump(jsonable(small), f, indent=1, sort_keys=True)
            nreported += 1
            rc = max(rc, 1) if rc != 2 else 2
        else:
            # The minimised scenario does not replay in a fresh interpreter.  Some defects depend
            # on process state outside the scenario (object addresses, allocator history) that
            # differs between the forked children used for minimisation and a fresh interpreter.
            # A fresh interpreter is deterministic in itself, so look for an instance that replays
            # THERE: the unminimised scenario (with its chunk's earlier runs as prelude) first.
            lo = v.get("chunk_lo", v["scenario"].get("run", 0))
            full = dict(v["scenario"])
            full["prelude"] = [generate(pm, pid, seed, i, tier) for i in range(lo, full.get("run", lo))]
            cands = [full, dict(v["scenario"])]
            done = False
            for ci, cand in enumerate(cands):
                cand = json.loads(json.dumps(jsonable(cand)))
                cand["expect"] = {"sig": v["sig"], "msg": v["msg"]}
                cpath = path[:-5] + (".full.json" if ci == 0 else ".alone.json")
                with open(cpath, "w") as f:
                    json.dump(cand, f, indent=1, sort_keys=True)
                ok1, dig1 = verify_fresh(cpath)
                if ok1:
                    ok2, dig2 = verify_fresh(cpath)          # and it must do so twice, identically
                    if ok2 and dig1 == dig2:
                        cand["expect"]["digest"] = dig1
                        with open(cpath, "w") as f:
                            json.dump(cand, f, indent=1, sort_keys=True)
                        print("VIOLATION property=%s replay=%s" % (pid, cpath))
                        print("  clause=%s :: %s" % (v["sig"].get("clause"), v["msg"]))
                        print("  signature=%s (not minimised: the violation depends on process state outside the "
                              "scenario; this file replays exactly in a fresh interpreter)" % key)
                        nreported += 1
                        rc = max(rc, 1) if rc != 2 else 2
                        done = True
                        break
            if not done:
                unconfirmed.append((dig, path))
    if len(fresh) > 4:
        print("  (%d further distinct violation signatures not minimised)" % (len(fresh) - 4))
    for dig, path in unconfirmed:
        if nreported:
            # the defect is real (another instance of it replays exactly); this instance depends on
            # something outside the scenario (e.g. memory addresses) and is not counted
            print("note: a further violation did not replay in a fresh interpreter and is not counted (%s): %s" % (dig, path))
        else:
            print("HARNESS-ERROR violation did not reproduce in a fresh interpreter (%s): %s" % (dig, path))
            rc = 2
    wall = time.time() - t0
    ev = {
        "property_id": pid, "tier": tier, "seed": seed, "level": "exploration",
        "coverage": {
            "evaluations": agg["runs"],
            "distinct_nontrivial": len(agg["nt_shapes"]),
            "rule": getattr(pm, "RULE", "one evaluation = one simulated run (seeded scenario: configuration + "
                                        "operation/fault schedule) executed against the real library; distinct = "
                                        "distinct (group kind, roles, op/fault-kind sequence) shape; non-trivial = at "
                                        "least one finish()/restore/decode actually executed against a live instance"),
            "samples": jsonable(agg["samples"][:3]),
            "nontrivial_runs": agg["nontrivial"],
            "distinct_shapes": len(agg["shapes"]),
            "distinct_cells": len(agg["cells"]),
            "cells_rule": getattr(pm, "CELLS_RULE", "n/a"),
            "faults_fired": dict(sorted(agg["fired"].items())),
            "probes": dict(sorted(agg["probes"].items())),
            "outcomes": dict(sorted(agg["outcomes"].items())),
            "steps_executed": agg["steps"],
            "steps_skipped_precondition": agg["skipped_steps"],
            "toy_curve_runs_skipped": agg["toy_skipped"],
            "virtual_ticks": agg["ticks"],
            "runs_per_hour": int(agg["runs"] / max(wall_search, 1e-6) * 3600),
            "workers": workers,
            "batch_digest": batch_digest,
            "wall_capped": capped,
            "components": {
                "real": ["spake2.spake2", "spake2.groups", "spake2.ed25519_basic", "spake2.ed25519_group",
                         "spake2.params", "spake2.parameters.*", "spake2.util", "cryptography HKDF", "hashlib", "json"],
                "simulated": ["entropy_f (EntropySource)", "os.urandom (tripwire)", "network (in-memory, adversarial)",
                              "storage/process lifetime (blob slot, crash, recover)", "scheduler"],
                "stub": ["peer / other library version = reference model (simspake.model) where a scenario says impl=model"],
            },
            "repo": os.environ.get("VERIF_REPO", "/repo"),
            "exhaustive": False,
        },
        "assumptions": getattr(pm, "ASSUMPTIONS", []),
        "wall_s": round(wall, 2),
        "violations": nreported,
        "known_findings_matched": {k: c for k, (c, _) in seen_known.items()},
    }
    zero = [k for k in getattr(pm, "EXPECT_PROBES", []) if not agg["probes"].get(k)]
    if zero:
        ev["coverage"]["probes_at_zero"] = zero
        if not quiet:
            print("note: reach probes at zero in this batch: %s" % ", ".join(zero))
    if write_evidence and rc != 2 and not os.environ.get("VERIF_NO_EVIDENCE"):
        os.makedirs(os.path.join(ROOT, "evidence"), exist_ok=True)
        with open(os.path.join(ROOT, "evidence", pid + ".json"), "w") as f:
            json.dump(ev, f, indent=1, sort_keys=True)
    if not quiet:
        print("%s tier=%s seed=%d runs=%d nontrivial=%d shapes=%d violations=%d known=%d wall=%.1fs (%.0f runs/h) digest=%s"
              % (pid, tier, seed, agg["runs"], agg["nontrivial"], len(agg["nt_shapes"]), nreported,
                 sum(c for c, _ in seen_known.values()), wall, agg["runs"] / max(wall_search, 1e-6) * 3600, batch_digest))
    return rc
