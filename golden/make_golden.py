"""Run ONCE against the pinned tree to freeze golden data (committed; never rewritten by checks).
Published vectors are copied from src/spake2/test/test_compat.py; constants and state blobs
are those of the pinned tree = released wire/state format."""
import sys, json, os
sys.path.insert(0, "/repo/src"); sys.path.insert(0, "/repo/src/spake2/test")
sys.dont_write_bytecode = True
from spake2.test import test_compat as tc
from spake2.test.common import PRG
from spake2.parameters.all import ParamsEd25519, Params1024, Params2048, Params3072
from spake2.spake2 import SPAKE2_A, SPAKE2_B, SPAKE2_Symmetric
out = {"p2s": tc.P2S_TEST_VECTORS, "s2b": tc.S2B_TEST_VECTORS, "ae": tc.AE_TEST_VECTORS,
       "hkdf": tc.HKDF_TEST_VECTORS,
       "finalize": [
           {"kind": "asym", "args": ["idA", "idB", "X_msg", "Y_msg", "K_bytes", "pw"],
            "key": "aa02a627537543399bb1b4b430646480b6d36ab5c44842e738c8f78694d8afac"},
           {"kind": "sym", "args": ["idSymmetric", "X_msg", "Y_msg", "K_bytes", "pw"],
            "key": "330a7ce7bb010fea7dae7e15b2261315403ab5dc269e461f6eb1cc6566620790"}],
       "e2e": [
           {"kind": "AB", "pw": "password", "prgA": "A", "prgB": "B",
            "m1": "416fc960df73c9cf8ed7198b0c9534e2e96a5984bfc5edc023fd24dacf371f2af9",
            "m2": "42354e97b88406922b1df4bea1d7870f17aed3dba7c720b313edae315b00959309",
            "x1": "2611694063369306139794446498317402240796898290761098242657700742213257926693",
            "x2": "7002393159576182977806091886122272758628412261510164356026361256515836884383",
            "w": "3515301705789368674385125653994241092664323519848410154015274772661223168839",
            "key": "a480bca13fa04464bb644f10e340125e96c9494f7399fef7c2bda67eb0fdf06d"},
           {"kind": "SS", "pw": "password", "prgA": "1", "prgB": "2",
            "m1": "5308f692d38c4034ad6e2e1054c469ca1dbe990bcaec4bbd3ad78c7d968eadd0b3",
            "m2": "5329e2d5f9b7a53e609204115c6458921b0bb27419ce82a27679fc5961002897df",
            "key": "9c4fccaa3f0740615cee6fd10ed5d3a311b91b5bdc65f53e4ea7cb2fe8aa96eb"}],
       }
sets = {"ed25519": ParamsEd25519, "i1024": Params1024, "i2048": Params2048, "i3072": Params3072}
out["constants"] = {}
out["blobs"] = []
for name, P in sets.items():
    g = P.group
    out["constants"][name] = {"M": P.M.to_bytes().hex(), "N": P.N.to_bytes().hex(), "S": P.S.to_bytes().hex(),
                              "Base": g.Base.to_bytes().hex(), "elem_size": g.element_size_bytes,
                              "scalar_size": g.scalar_size_bytes, "order": str(g.order())}
    for cls, K in (("A", SPAKE2_A), ("B", SPAKE2_B), ("S", SPAKE2_Symmetric)):
        pw = b"pw-\x00\xff-" + name.encode()
        if cls == "S":
            a = K(pw, idSymmetric=b"ids\x01", params=P, entropy_f=PRG(b"g-" + name.encode() + cls.encode()))
            b = K(pw, idSymmetric=b"ids\x01", params=P, entropy_f=PRG(b"peer"))
        else:
            a = K(pw, idA=b"alice", idB=b"bob\x00", params=P, entropy_f=PRG(b"g-" + name.encode() + cls.encode()))
            PK = SPAKE2_B if cls == "A" else SPAKE2_A
            b = PK(pw, idA=b"alice", idB=b"bob\x00", params=P, entropy_f=PRG(b"peer"))
        ma, mb = a.start(), b.start()
        blob = a.serialize()
        key = a.finish(mb)
        assert b.finish(ma) == key
        out["blobs"].append({"set": name, "cls": cls, "blob": blob.decode("ascii"), "out": ma.hex(),
                             "peer_msg": mb.hex(), "key": key.hex()})
json.dump(out, open(os.path.join(os.path.dirname(os.path.abspath(__file__)), "vectors.json"), "w"), indent=1)
print("ok", len(out["blobs"]))
