"""Definition of the sensitivity mutants (string edits against the current /repo tree).
Each must still pass the repository's 43 tests; `tools/mutants.py verify` checks that."""
SP = "src/spake2/spake2.py"
GR = "src/spake2/groups.py"
UT = "src/spake2/util.py"
ED = "src/spake2/ed25519_basic.py"
P1 = "src/spake2/parameters/i1024.py"

ASYM_RESTORE_IDS = '''                     idA=unhexlify(d["idA"].encode("ascii")),
                     idB=unhexlify(d["idB"].encode("ascii")),'''

MUTANTS = [
 dict(name="restore-swaps-ids", props=["C01", "C08", "C10"], edits=[(SP, ASYM_RESTORE_IDS,
      '''                     idA=unhexlify(d["idB"].encode("ascii")),
                     idB=unhexlify(d["idA"].encode("ascii")),''')]),
 dict(name="restore-drops-idS", props=["C01", "C08", "C10"], edits=[(SP,
      '''idSymmetric=unhexlify(d["idS"].encode("ascii")),''', '''idSymmetric=b"",''')]),
 dict(name="transcript-strips-trailing-nul-of-idB", props=["C03"], edits=[(SP,
      '''sha256(idA).digest(), sha256(idB).digest(),''', '''sha256(idA).digest(), sha256(idB.rstrip(b"\\x00")).digest(),''')]),
 dict(name="no-reflection-check-for-B", props=["C06", "C03"], edits=[(SP,
      '''        if inbound_elem.to_bytes() == self.outbound_message:
            raise ReflectionThwarted''',
      '''        if inbound_elem.to_bytes() == self.outbound_message and self.side != SideB:
            raise ReflectionThwarted''')]),
 dict(name="symmetric-accepts-unknown-side", props=["C06"], edits=[(SP,
      '''        assert other_side == SideSymmetric
''', '''''')]),
 dict(name="asym-accepts-S-labelled", props=["C06"], edits=[(SP,
      '''        if other_side not in (SideA, SideB):
            raise OffSides("I don't know what side they're on")''',
      '''        if other_side not in (SideA, SideB, SideSymmetric):
            raise OffSides("I don't know what side they're on")''')]),
 dict(name="restored-asym-not-started", props=["C07", "C08"], edits=[(SP,
      '''        g = self.params.group
        self._started = True
        xy_scalar_bytes = unhexlify(d["xy_scalar"].encode("ascii"))
        self.xy_scalar = g.bytes_to_scalar(xy_scalar_bytes)
        self.xy_elem = g.Base.scalarmult(self.xy_scalar)
        self.compute_outbound_message()
        return self


# applications''',
      '''        g = self.params.group
        xy_scalar_bytes = unhexlify(d["xy_scalar"].encode("ascii"))
        self.xy_scalar = g.bytes_to_scalar(xy_scalar_bytes)
        self.xy_elem = g.Base.scalarmult(self.xy_scalar)
        self.compute_outbound_message()
        return self


# applications''')]),
 dict(name="restored-asym-uses-M-blinding", props=["C01", "C08", "C03", "C10"], edits=[(SP,
      '''        self.xy_elem = g.Base.scalarmult(self.xy_scalar)
        self.compute_outbound_message()
        return self


# applications''',
      '''        self.xy_elem = g.Base.scalarmult(self.xy_scalar)
        pw_blinding = self.params.M.scalarmult(self.pw_scalar)
        self.outbound_message = self.xy_elem.add(pw_blinding).to_bytes()
        return self


# applications''')]),
 dict(name="serialize-adds-random-nonce", props=["C08", "C11"], edits=[(SP,
      '''        return json.dumps(self._serialize_to_dict()).encode("ascii")''',
      '''        d = self._serialize_to_dict()
        d["nonce"] = hexlify(os.urandom(4)).decode("ascii")
        return json.dumps(d).encode("ascii")''')]),
 dict(name="fingerprint-omits-N", props=["C09", "C10"], edits=[(SP,
      '''                  self.params.M.to_bytes(),
                  self.params.N.to_bytes(),
                  ]''', '''                  self.params.M.to_bytes(),
                  ]''')]),
 dict(name="asym-restore-side-check-one-directional", props=["C09"], edits=[(SP,
      '''        if d["side"].encode("ascii") != self.side:
            raise WrongSideSerialized''',
      '''        if d["side"].encode("ascii") != self.side and self.side == SideB:
            raise WrongSideSerialized''')]),
 dict(name="state-field-renamed", props=["C10"], edits=[
      (SP, '''             "xy_scalar": hexlify(g.scalar_to_bytes(self.xy_scalar)).decode("ascii"),
             }
        return d

    @classmethod
    def _deserialize_from_dict(klass, d, params):
        def _should''', '''             "scalar": hexlify(g.scalar_to_bytes(self.xy_scalar)).decode("ascii"),
             }
        return d

    @classmethod
    def _deserialize_from_dict(klass, d, params):
        def _should'''),
      (SP, '''        self._started = True
        xy_scalar_bytes = unhexlify(d["xy_scalar"].encode("ascii"))
        self.xy_scalar = g.bytes_to_scalar(xy_scalar_bytes)
        self.xy_elem = g.Base.scalarmult(self.xy_scalar)
        self.compute_outbound_message()
        return self


# applications''', '''        self._started = True
        xy_scalar_bytes = unhexlify(d["scalar"].encode("ascii"))
        self.xy_scalar = g.bytes_to_scalar(xy_scalar_bytes)
        self.xy_elem = g.Base.scalarmult(self.xy_scalar)
        self.compute_outbound_message()
        return self


# applications''')]),
 dict(name="password-stored-latin1", props=["C10"], edits=[
      (SP, '''             "idS": hexlify(self.idSymmetric).decode("ascii"),
             "password": hexlify(self.pw).decode("ascii"),''',
           '''             "idS": hexlify(self.idSymmetric).decode("ascii"),
             "password": self.pw.decode("latin-1"),'''),
      (SP, '''        self = klass(password=unhexlify(d["password"].encode("ascii")),
                     idSymmetric=''', '''        self = klass(password=d["password"].encode("latin-1"),
                     idSymmetric=''')]),
 dict(name="sampler-modulo", props=["C11"], edits=[(UT,
      '''        if candidate_int < maxval:
            return start + candidate_int''', '''        return start + candidate_int % maxval''')]),
 dict(name="sampler-accepts-maxval-for-wide-ranges", props=["C11"], edits=[(UT,
      '''        if candidate_int < maxval:''', '''        if candidate_int < maxval or (candidate_int == maxval and num_bytes > 8):''')]),
 dict(name="sampler-mask-too-narrow", props=["C11"], edits=[(UT,
      '''    top_byte_mask_int, num_bytes = generate_mask(maxval)
    while True:''', '''    top_byte_mask_int, num_bytes = generate_mask(maxval)
    if maxval > 2:
        top_byte_mask_int = top_byte_mask_int >> 1 or top_byte_mask_int
    while True:''')]),
 dict(name="sampler-mask-too-wide", props=["C11"], edits=[(UT,
      '''    top_byte_mask_int, num_bytes = generate_mask(maxval)
    while True:''', '''    top_byte_mask_int, num_bytes = generate_mask(maxval)
    top_byte_mask_int = 0xff
    while True:''')]),
 dict(name="sampler-retry-is-modulo", props=["C11"], edits=[(UT,
      '''        if candidate_int < maxval:
            return start + candidate_int''', '''        if candidate_int < maxval:
            return start + candidate_int
        retry = list_of_ints_to_number(random_list_of_ints(num_bytes, entropy_f))
        return start + retry % maxval''')]),
 dict(name="revert-ed25519-decoder-fix", props=["C02", "C05"], edits=[
      (ED, '''    if len(bytes) != 32:
        raise ValueError("element must be exactly 32 bytes")
''', ''''''),
      (ED, '''    if P is Zero or is_extended_zero(P.XYTZ):''', '''    if P is Zero:'''),
      (ED, '''    if element.to_bytes() != bytes:
        raise ValueError("element encoding is not canonical")
''', '''''')]),
 dict(name="ed-no-subgroup-check", props=["C05"], edits=[(ED,
      '''    if not is_extended_zero(P.scalarmult(L).XYTZ):
        raise ValueError("element is not in the right group")
    # the point is in the expected''', '''    # the point is in the expected''')]),
 dict(name="ed-identity-check-by-pattern", props=["C05"], edits=[
      (ED, '''    if P is Zero or is_extended_zero(P.XYTZ):''', '''    if P is Zero:'''),
      (ED, '''    if element.to_bytes() != bytes:
        raise ValueError("element encoding is not canonical")
''', '''''')]),
 dict(name="int-decoder-reduces-mod-p", props=["C05"], edits=[(GR,
      '''        i = bytes_to_number(b)
        if i <= 0 or i >= self.p:   # Zp* excludes 0''', '''        i = bytes_to_number(b) % self.p
        if i <= 0 or i >= self.p:   # Zp* excludes 0''')]),
 dict(name="int-decoder-pads-short-input", props=["C05"], edits=[(GR,
      '''        assert isinstance(b, bytes)
        assert len(b) == self.element_size_bytes
        i = bytes_to_number(b)
        if i <= 0''', '''        assert isinstance(b, bytes)
        assert 0 < len(b) <= self.element_size_bytes
        i = bytes_to_number(b)
        if i <= 0''')]),
 dict(name="int-subgroup-check-accepts-order-2q", props=["C05"], edits=[(GR,
      '''        if pow(e._e, self.q, self.p) == 1:
            return True''', '''        if pow(e._e, self.q, self.p) in (1, self.p - 1):
            return True''')]),
 dict(name="i2048-other-generator", props=["C03", "C10"], edits=[(GR,
      '''    g=0xA59A749A11242C58C894E9E5A91804E8FA0AC64B56288F8D47D51B1EDC4D65444FECA0111D78F35FC9FDD4CB1F1B79A3BA9CBEE83A3F811012503C8117F98E5048B089E387AF6949BF8784EBD9EF45876F2E6A5A495BE64B6E770409494B7FEE1DBB1E4B2BC2A53D4F893D418B7159592E4FFFDF6969E91D770DAEBD0B5CB14C00AD68EC7DC1E5745EA55C706C4A1C5C88964E34D09DEB753AD418C1AD0F4FDFD049A955E5D78491C0B7A2F1575A008CCD727AB376DB6E695515B05BD412F5B8C2F4C77EE10DA48ABD53F5DD498927EE7B692BBBCDA2FB23A516C5B4533D73980B2A3B60E384ED200AE21B40D273651AD6060C13D97FD69AA13C5611A51B9085,
    )''', '''    g=pow(0xA59A749A11242C58C894E9E5A91804E8FA0AC64B56288F8D47D51B1EDC4D65444FECA0111D78F35FC9FDD4CB1F1B79A3BA9CBEE83A3F811012503C8117F98E5048B089E387AF6949BF8784EBD9EF45876F2E6A5A495BE64B6E770409494B7FEE1DBB1E4B2BC2A53D4F893D418B7159592E4FFFDF6969E91D770DAEBD0B5CB14C00AD68EC7DC1E5745EA55C706C4A1C5C88964E34D09DEB753AD418C1AD0F4FDFD049A955E5D78491C0B7A2F1575A008CCD727AB376DB6E695515B05BD412F5B8C2F4C77EE10DA48ABD53F5DD498927EE7B692BBBCDA2FB23A516C5B4533D73980B2A3B60E384ED200AE21B40D273651AD6060C13D97FD69AA13C5611A51B9085, 2, 0xC196BA05AC29E1F9C3C72D56DFFC6154A033F1477AC88EC37F09BE6C5BB95F51C296DD20D1A28A067CCC4D4316A4BD1DCA55ED1066D438C35AEBAABF57E7DAE428782A95ECA1C143DB701FD48533A3C18F0FE23557EA7AE619ECACC7E0B51652A8776D02A425567DED36EABD90CA33A1E8D988F0BBB92D02D1D20290113BB562CE1FC856EEB7CDD92D33EEA6F410859B179E7E789A8F75F645FAE2E136D252BFFAFF89528945C1ABE705A38DBC2D364AADE99BE0D0AAD82E5320121496DC65B3930E38047294FF877831A16D5228418DE8AB275D7D75651CEFED65F78AFC3EA7FE4D79B35F62A0402A1117599ADAC7B269A59F353CF450E6982D3B1702D9CA83),
    )''')]),
 dict(name="params1024-other-M-seed", props=["C03", "C10"], edits=[(P1,
      '''Params1024 = _Params(I1024)''', '''Params1024 = _Params(I1024, M=b"m")''')]),
 dict(name="blinding-memo-on-shared-params-keyed-by-side", props=["C16"], edits=[(SP,
      '''        pw_blinding = self.my_blinding().scalarmult(self.pw_scalar)
        message_elem = self.xy_elem.add(pw_blinding)''',
      '''        cache = self.params.__dict__.setdefault("_blinding_cache", {})
        if self.side not in cache:
            cache[self.side] = self.my_blinding().scalarmult(self.pw_scalar)
        pw_blinding = cache[self.side]
        message_elem = self.xy_elem.add(pw_blinding)''')]),
 dict(name="inverse-memo-race", props=["C16"], edits=[(ED,
      '''def inv(x):
    return pow(x, Q-2, Q)''',
      '''_inv_memo = [None, None]
def inv(x):
    if _inv_memo[0] == x:
        return _inv_memo[1]
    r = pow(x, Q-2, Q)
    _inv_memo[0] = x
    _inv_memo[1] = r
    return r''')]),

 # ---- mutants that need a call ABORTED midway (injected MemoryError / KeyboardInterrupt) --------------
 # serialize() puts the instance into "export form" and back: harmless unless the call is aborted between
 dict(name="serialize-mutates-then-restores", props=["C08", "C01"], edits=[(SP,
      '''        return json.dumps(self._serialize_to_dict()).encode("ascii")''',
      '''        pw = self.pw
        self.pw = hexlify(pw)
        d = self._serialize_to_dict()
        d["password"] = self.pw.decode("ascii")
        self.pw = pw
        return json.dumps(d).encode("ascii")''')]),
 # process-wide memo of the password blinding term, slot reserved before the value is computed
 dict(name="blinding-memo-reserved-before-computed", props=["C16"], edits=[(SP,
      '''        pw_blinding = self.my_blinding().scalarmult(self.pw_scalar)
        message_elem = self.xy_elem.add(pw_blinding)''',
      '''        key = (self.my_blinding().to_bytes(), self.pw_scalar)
        if key not in _BLIND_MEMO:
            _BLIND_MEMO[key] = self.xy_elem       # reserve the slot
            _BLIND_MEMO[key] = self.my_blinding().scalarmult(self.pw_scalar)
        pw_blinding = _BLIND_MEMO[key]
        message_elem = self.xy_elem.add(pw_blinding)'''),
      (SP, '''class _SPAKE2_Base:''', '''_BLIND_MEMO = {}

class _SPAKE2_Base:''')]),
 # the once-guard is set when the call is left instead of when it is entered: only a nested call sees it
 dict(name="start-guard-set-on-exit", props=["C07"], edits=[(SP,
      '''        self._started = True

        g = self.params.group
        self.xy_scalar = g.random_scalar(self.entropy_f)
        self.xy_elem = g.Base.scalarmult(self.xy_scalar)
        self.compute_outbound_message()''',
      '''        g = self.params.group
        self.xy_scalar = g.random_scalar(self.entropy_f)
        self.xy_elem = g.Base.scalarmult(self.xy_scalar)
        self.compute_outbound_message()
        self._started = True''')]),
]

# behaviour-preserving refactors: every check must stay at exit 0
EQUIVALENT = [
 # over-long strings are still refused by the re-encoding comparison
 dict(name="equiv-ed-length-check-only-lower-bound", edits=[(ED,
      '''    if len(bytes) != 32:''', '''    if len(bytes) < 32:''')]),
 dict(name="equiv-reflection-on-raw-bytes", edits=[(SP,
      '''        if inbound_elem.to_bytes() == self.outbound_message:''',
      '''        if self.inbound_message == self.outbound_message:''')]),
 dict(name="equiv-sampler-little-endian-layout", edits=[(UT,
      '''        candidate_bytes = mask_list_of_ints(top_byte_mask_int, enough_bytes)''',
      '''        candidate_bytes = mask_list_of_ints(top_byte_mask_int, enough_bytes[::-1])''')]),
 dict(name="equiv-memo-fingerprint-on-instance", edits=[(SP,
      '''    def serialize(self):
        if not self._started:
            raise SerializedTooEarly("call .start() before .serialize()")
        return json.dumps(self._serialize_to_dict()).encode("ascii")''',
      '''    def serialize(self):
        if not self._started:
            raise SerializedTooEarly("call .start() before .serialize()")
        if not hasattr(self, "_blob_memo"):
            self._blob_memo = json.dumps(self._serialize_to_dict()).encode("ascii")
        return self._blob_memo''')]),
 dict(name="equiv-renamed-internals", edits=[
      (SP, "__REPLACE_ALL__", ("self._started", "self._has_begun")),
      (SP, "__REPLACE_ALL__", ("self._finished", "self._is_done")),
      (SP, "__REPLACE_ALL__", ("self.inbound_message", "self._in_bytes"))]),
 dict(name="equiv-json-compact-sorted", edits=[(SP,
      '''        return json.dumps(self._serialize_to_dict()).encode("ascii")''',
      '''        return json.dumps(self._serialize_to_dict(), sort_keys=True, separators=(",", ":")).encode("ascii")''')]),
]
