#!/venv/bin/python
"""Regenerates section 9 of DESIGN.md (which checks catch which changes) from
tools/mutants_def.py, the last mutants log (if given) and seeded/*/meta.json."""
import json, os, re, sys
ROOT = os.path.dirname(os.path.dirname(os.path.abspath(__file__)))
sys.path.insert(0, os.path.join(ROOT, "tools"))
from mutants_def import MUTANTS, EQUIVALENT

def main():
    lines = ["## 9. Which checks catch which changes", "",
             "Every change below passes the repository's 43 tests. *Mutants* are mine (`tools/mutants_def.py`), *seeded*",
             "changes were written by independent sub-agents that saw only the property text and a scratch worktree",
             "(`/verif/seeded/<id>/`: patch.diff, demo.py, notes.md, meta.json). Verdicts are from the quick tier",
             "(`tools/mutants.py run`, `tools/seeded.py run`), each run against a scratch copy of /repo/src.", "",
             "| change | kind | caught by (quick tier) | first clause reported |", "|---|---|---|---|"]
    logs = {}
    for path in sys.argv[1:]:
        for l in open(path):
            m = re.match(r"(\S+)\s+(C\d\d) rc=(\d) (\S+)\s+\d+s\s*(clause=(\S+))?", l)
            if m:
                logs[(m.group(1), m.group(2))] = (m.group(4), m.group(6) or "")
    for m in MUTANTS:
        got = []
        clause = ""
        for p in m["props"]:
            v = logs.get((m["name"], p))
            if v and v[0] == "ok":
                got.append(p)
                clause = clause or v[1]
            elif v:
                got.append(p + " (" + v[0] + ")")
            else:
                got.append(p + " (not run)")
        lines.append("| %s | mutant | %s | %s |" % (m["name"], ", ".join(got), clause))
    sd = os.path.join(ROOT, "seeded")
    for sid in sorted(os.listdir(sd)):
        mp = os.path.join(sd, sid, "meta.json")
        if not os.path.exists(mp):
            continue
        meta = json.load(open(mp))
        got, clause = [], ""
        for k, v in sorted(meta.get("checks", {}).items()):
            pid = k.split(":")[0]
            got.append(pid if v["verdict"] == "caught" else "%s (%s)" % (pid, v["verdict"]))
            if v.get("clause") and not clause:
                clause = v["clause"].split("::")[0].replace("clause=", "").strip()
        kind = "sub-agent, breaks %s" % meta["breaks"]
        if meta.get("written_for") and meta["written_for"] != meta["breaks"]:
            kind += " (written for %s, see meta.json)" % meta["written_for"]
        lines.append("| seeded %s | %s | %s | %s |" % (sid, kind, ", ".join(got) or "(not run)", clause))
    lines += ["", "Changes the first build missed, and what was strengthened (all are caught now, except seeded C02-r9A - see round 9):", "",
              "* seeded C08-A (fingerprint memoised on the shared parameter object; wrong only across a process restart): a",
              "  simulated `crash` used to discard the instance but keep module-level state. Added *hosts* = simulated",
              "  processes with their own freshly imported copy of the library and a `reboot` operation after which only",
              "  blobs survive; C08 places a neighbour session of the other class family on the same host and demands that",
              "  an honest restore is never refused (`restore-refused`).",
              "* seeded C09-B (fingerprint over unframed seed strings): needed a parameter pair whose M and N seeds both",
              "  change while their concatenation does not; added the `seed:MN-shift` difference. The same run showed that",
              "  C09's clause `same-config-refused` demanded more than the property states (a refusal is never a C09",
              "  matter); it was removed.",
              "* seeded C11-B and mutant sampler-mask-too-wide ended as harness errors (a degenerate tripwire stream made",
              "  the mutated sampler loop forever; the sweep let a slow sampler run on after a rejected first answer): the",
              "  tripwire now answers with a hash stream restarted per run and the sweep stops the call at the second request.",
              "* mutant restored-asym-not-started was missed by C08 (caught by C07): `serialize()` raising on a restored",
              "  instance is now a C08 violation (`serialize-raised`).",
              "* mutant serialize-adds-random-nonce first ended as a non-reproducing replay (tripwire bytes depended on the",
              "  worker's history): fixed by restarting the tripwire stream with every run.",
              "* round 2 (changes `*-r2A/B`, written by sub-agents told which mechanisms were already taken): eight of 22 were",
              "  first missed or ended as harness errors. C01-r2A and C03-r2A (module-level caches keyed without the",
              "  parameter seeds) only fail after an *earlier run of the same process*: chunks now run as one forked",
              "  process each and a violation that does not replay alone is replayed with its chunk's earlier runs as a",
              "  minimised *prelude*. C01-r2B / C10-r2B / C11-r2A (scalar 0 treated as 'no scalar' on restore or",
              "  serialize): an honest persist/restore that raises is now a violation in C01 and C10, and",
              "  `from_serialized()` hitting the library's must-not-be-used entropy stub is a C11 violation. C02-r2A (side",
              "  byte rewritten to exactly 0x53): side faults are biased to the letters that matter. C02-r2B (identities",
              "  stored as latin-1, restored as utf-8): configuration differences now include *near-miss* byte strings",
              "  (transcoded, NUL/space-extended, case-swapped, hex text). C08-r2B (restore cache keyed without the side):",
              "  the peer sometimes draws from the same stuck RNG stream as the victim and is restored first. C09-r2B",
              "  (fingerprint memo keyed by `id(params)`): scenarios with `ephemeral_params` build custom parameter sets",
              "  per session and free them with it, so addresses are reused; instances of such a violation that do not",
              "  replay in a fresh interpreter are reported as notes as long as another instance replays exactly.",
              "  C11-r2B (off-by-one that also makes width 1 loop forever): the entropy seam now refuses more than 4 096",
              "  draws per session and the check reports `sampler-does-not-terminate` instead of hanging.",
              "* round 3 (`*-r3A/B`; sub-agents told the mechanisms of rounds 1-2): C05-r3A/B (a subgroup-membership memo",
              "  shared by all integer groups; a one-slot decode memo written before validation) led to elements of other",
              "  groups re-encoded at the victim's width and to strings offered twice in a row; C11-r3A (fallback to a",
              "  biased draw after 128 re-draws) led to the *deep re-draw* sweep (all answers after k = 2..300 rejected",
              "  ones); C11-r3B / C07-r3B (a refused second start() re-draws the scalar) led to refused-start accounting;",
              "  C02-r3A (identities stored joined by NUL) to separator-joined identity pairs, C02-r3B / C03-r3B (`seed or",
              "  default`) to empty custom seeds and to treating a refused parameter-set construction as an outcome, not",
              "  a harness error; C01-r3B to a neighbour session of the other flavour in C01's process-restart runs;",
              "  C09-r3A to exchanged M/N seeds; C16-r3A/B (an errno-style status global in the Ed25519 decoder; a one-slot",
              "  format memo with incomplete locking) to site-targeted pre-emption and to cooperative locks for the library",
              "  (it is imported with a proxy `threading` module, so a thread blocking on a lock hands the baton on).",
              "* round 4 (`*-r4A/B`; decisive edit outside spake2.py, numeric-shape defects): all 18 were caught at once",
              "  except C02-r4B, which C02 must not flag (an entropy read equal to q is folded to scalar 0: with scalar 0",
              "  every correct implementation agrees despite a parameter-only difference - guard iii); it is a sampler",
              "  defect, re-filed under C11, which reports it. The round still led to more shapes of generated groups",
              "  (q of 7..33 bits, cofactors of 1..20 bits so that p and q cross byte boundaries independently) and to",
              "  leading-NUL near-miss seeds/identities.",
              "* round 5 (`*-r5A/B`, red team: the authors were additionally given a prose description of the kind of inputs",
              "  a randomized harness generates - no file from /verif - and asked for changes such a harness would miss;",
              "  recorded in each meta.json). Every one needed new input support and is caught now: C07-r5A (a bounded call",
              "  log forgets `start` after 16 logged calls) -> histories of 18-70 calls and checkpoint-heavy histories;",
              "  C07-r5B / C06-r5A (`bytearray` messages skip a guard / `is` on single bytes) -> buffer-typed messages;",
              "  C08-r5A (restore looks the class up from the blob) -> application subclasses; C08-r5B (restore tail inside",
              "  an `assert`) -> simulated processes started with `python -O`; C10-r5A (4096-byte cap on restore) and",
              "  C02-r5A/B (identities over 1 kB pre-hashed; passwords capped at 4096 bytes) -> certificate-sized strings,",
              "  (long string, its digest) pairs and strings sharing a 1-64 kB prefix; C10-r5B (fixed 48-byte password",
              "  expansion) -> frozen custom groups with q of 257-521 bits; C06-r5B (blinding memo without the seeds,",
              "  visible only after a restart) -> a restart variant in C06; C03-r5A (`sys.byteorder` instead of a literal",
              "  'little') -> a big-endian-host seam in C03 (sys.byteorder patched for the run); C03-r5B (hand-rolled HKDF",
              "  wrong beyond 64 output bytes) is reached by the new q > 384-bit pool groups; C05-r5A/B (hex text of an",
              "  element accepted; finish() collapsing a latin-1->UTF-8 expanded message) -> *text-form* faults (hex,",
              "  HEX, base64, latin-1 read back as UTF-8, of the element or of the whole message) in C05 and C02.",
              "* round 6 (`*-r6A/B`, red team told the round-5 additions as well): C09-r6A (fingerprint checked against the",
              "  `params` argument instead of the instance's own) -> restores through an application subclass that pins",
              "  its own parameter set; C09-r6B (memoised empty-password scalar no longer reflects the group's own",
              "  password mapping) -> a parameter variant whose group CLASS overrides password_to_scalar (same p, q, g,",
              "  seeds); C11-r6A (`entropy_f or os.urandom`) -> entropy objects that are callable but falsy; C11-r6B",
              "  (reads capped at 256 bytes, the block repeated) -> widths of 2^2048..2^8200 and the necessary condition",
              "  that a draw requests at least log2(width)/8 bytes (`insufficient-entropy`). The C01 and C16 red-team",
              "  agents of rounds 5/6 ended without output (tool limits); a round-7 retry gave C01-r7A (symmetric transcript",
              "  sorted by the first 4 message bytes only: wrong when the two messages share a 4-byte prefix) -> C01 runs",
              "  in which the two Symmetric ends' scalars are found by a birthday walk in the reference model so that their",
              "  messages agree in the first or last k bytes but differ elsewhere. C16-r7A (a module-level work list behind a",
              "  lock-free busy flag: needs two pre-emptions) was caught by the site-targeted schedule as it was; C16-r7B (a",
              "  digest table keyed by length + first/last 32 bytes of large identities) -> families of look-alike large",
              "  identities (same length, head and tail, different middle) in C16 and C02.",
              "* round 8 (`*-r8A/B`): C08-r8A (the restored instance keeps the caller's blob object; wrong once a mutable",
              "  buffer is scrubbed) and C10-r8A (from_serialized refusing `bytearray` rows) -> stored rows are sometimes",
              "  handed over in a `bytearray` that the application wipes afterwards; C05-r8A (a module flag cleared by the",
              "  library's lenient public decoder and not restored when it raises) -> C05 calls that helper on arbitrary",
              "  strings before strict decoding; C10-r8B (no whitespace allowed outside the JSON object) was caught as",
              "  it was (the reference encoder already writes outer whitespace). The C02 agent ended without output.",
              "* round 9 (`*-r9A/B`, 22 changes by independent sub-agents given the property text, a worktree and a one-line list",
              "  of mechanisms already used; 21 kept). Twelve were caught by the build of the day; nine were missed or ended as",
              "  harness errors and led to: C01-r9A (class-level list shared by all A/B instances; wrong only when two",
              "  handshakes overlap in one process) -> a second, concurrent honest pair in 15 % of the C01 runs, judged pair by",
              "  pair; C01-r9B (repr of the group object, i.e. its ADDRESS, hashed into the fingerprint) -> a dead simulated",
              "  process's objects stay allocated so that a restarted process never shares addresses with its predecessor, and",
              "  a violation whose signature reproduces in three fresh interpreters is reported although the event-log digest",
              "  differs between them (the library's own output is address-dependent); C05-r9B (finish() strips a CR/LF tail",
              "  after a full element) -> *framing tails* (LF, CRLF, NUL, '=', ...) as an extension fault in C05, C02 and as a",
              "  reflection variant in C06; C06-r9B (raw-byte reflection test + minimal-length integer decoding) -> reflection",
              "  of the own element with leading zero octets stripped; C07-r9A (`if self.xy_scalar:` instead of a flag) first",
              "  ended as a harness error in new code of mine, now caught; C07-r9B (once-guards set when the call is LEFT) ->",
              "  *nested* calls: the entropy function re-enters start() on the same instance (`start_reentrant`); C10-r9A /",
              "  C16-r9B (fingerprint memo keyed by `id(params)` without a reference) -> ephemeral parameter sets in C10 and",
              "  C16, and *address reservation*: when a session owning a private parameter set is dropped, the executor takes",
              "  the freed blocks (the set and the elements it owned) back from the allocator at once and builds the next",
              "  ephemeral set on them, so that address reuse is the rule of the simulation, not allocator luck, and replays",
              "  in a fresh interpreter; C10-r9B (restore tail inside an `assert`) -> `python -O` processes in C10 too;",
              "  C11-r9B (module-level sampler state retargeted when two draws overlap) -> re-entrant seam sweep in C11 (another",
              "  draw over another range runs inside the first entropy read) and, in C16, calls of OTHER sessions nested inside",
              "  a session's entropy read (same thread, nested stacks). **Still missed: C02-r9A** (memo of pw*M keyed by",
              "  `(id(element), scalar)`; needs a dead tenant's blinding ELEMENT address to be handed to the mismatching end's",
              "  element): the previous-tenant scenario and the element-address reservation added to C02 reproduce the",
              "  precondition only when the constructor's allocation order cooperates (the M element lands on its",
              "  predecessor's address, N and S usually do not); recorded as MISSED in its meta.json. C03-r9B (shift instead of",
              "  mask in the sampler) is the same change as C03-r2B and was **not kept** for the same reason.",
              "* aborted calls (my own fault kind, this round): the simulator raises MemoryError / KeyboardInterrupt at a chosen",
              "  line event inside a library call (first lines, last lines, or a uniform fraction measured by a dry run of the",
              "  same call in a forked child). Mutants `serialize-mutates-then-restores` (C08, C01) and",
              "  `blinding-memo-reserved-before-computed` (C16) need exactly that and are caught; `start-guard-set-on-exit`",
              "  (C07) needs the nested start.",
              "* round-3 change C07-r3A (`_started` set only when start() succeeds, so a start() after a start() whose",
              "  entropy function raised returns the one and only message) was **not kept**: the statement bounds the",
              "  number of messages returned (at most one) and fixes the error only for calls after a message was",
              "  returned; C07 stays at exit 0 on it, as it should.",
              "* round-2 change C03-r2B (`unbiased_randrange` shifting instead of masking, changing which x a given",
              "  entropy stream yields on custom groups with non-byte-aligned q) was **not kept**: it stays an exact",
              "  rejection sampler and the message is still x*G + w*M for the x the node reports, so it breaks neither C03",
              "  nor C11 as stated (its demo hard-codes the old derivation of x); all eleven checks stay at exit 0 on it,",
              "  as they should.",
              "* two of my own mutants were wrong and were corrected: a lower-bound-only Ed25519 length test and lenient",
              "  integer decoders alone do not break C02 (raw bytes are hashed), the former does not even break C05 after",
              "  the fix (re-encoding comparison) and is now kept as an equivalence test.", ""]
    lines += ["Behaviour-preserving refactors that leave all eleven checks at exit 0: " +
              ", ".join("`%s`" % e["name"] for e in EQUIVALENT) + ".", ""]
    p = os.path.join(ROOT, "DESIGN.md")
    s = open(p).read()
    i = s.index("## 9. Which checks catch which changes")
    open(p, "w").write(s[:i] + "\n".join(lines))
    print("section 9 rewritten: %d rows" % (len(lines) - 9))

main()
