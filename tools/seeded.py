#!/venv/bin/python
"""tools/seeded.py import  <dir-with-patch.diff,demo.py,notes.md> <seeded-id> <property>
       confirm a sub-agent's change (applies, passes the 43 tests, demo fails with / passes without),
       then keep it under /verif/seeded/<seeded-id>/
   tools/seeded.py run [id ...] [--props C01,C02] [--tier quick]
       run the checks named in meta.json (or --props) against each kept change, in a scratch copy
       of /repo (removed afterwards); prints caught / MISSED per (change, check)."""
import json, os, shutil, subprocess, sys, tempfile, time
ROOT = os.path.dirname(os.path.dirname(os.path.abspath(__file__)))
REPO = "/repo"
SEEDED = os.path.join(ROOT, "seeded")


def scratch(patch=None):
    d = tempfile.mkdtemp(prefix="spake2-seed-")
    shutil.copytree(os.path.join(REPO, "src"), os.path.join(d, "src"), ignore=shutil.ignore_patterns("__pycache__", "*.egg-info"))
    for f in ("setup.cfg", "setup.py", "versioneer.py"):
        if os.path.exists(os.path.join(REPO, f)):
            shutil.copy(os.path.join(REPO, f), d)
    if patch:
        r = subprocess.run(["patch", "-p1", "-s", "-i", patch], cwd=d, capture_output=True, text=True)
        if r.returncode:
            shutil.rmtree(d)
            raise RuntimeError("patch does not apply: " + r.stdout + r.stderr)
    return d


def tests(d):
    env = dict(os.environ, PYTHONPATH=os.path.join(d, "src"), PYTHONDONTWRITEBYTECODE="1")
    r = subprocess.run(["/venv/bin/python", "-m", "pytest", "-q", "-p", "no:cacheprovider", "src/spake2/test"],
                       cwd=d, env=env, capture_output=True, text=True, timeout=900)
    return r.returncode == 0, (r.stdout.strip().splitlines() or ["?"])[-1]


def demo(d, demo_py):
    env = dict(os.environ, SPAKE2_SRC=os.path.join(d, "src"), PYTHONDONTWRITEBYTECODE="1")
    r = subprocess.run(["/venv/bin/python", demo_py], env=env, capture_output=True, text=True, timeout=900)
    return r.returncode, (r.stdout + r.stderr)[-300:]


def do_import(src, sid, prop):
    patch, demo_py = os.path.join(src, "patch.diff"), os.path.join(src, "demo.py")
    clean = scratch()
    mut = scratch(patch)
    try:
        ok_t, tail = tests(mut)
        rc_clean, out_c = demo(clean, demo_py)
        rc_mut, out_m = demo(mut, demo_py)
        print("%s: tests %s (%s); demo unchanged rc=%d, changed rc=%d" % (sid, "PASS" if ok_t else "FAIL", tail, rc_clean, rc_mut))
        if not (ok_t and rc_clean == 0 and rc_mut != 0):
            print("NOT KEPT", out_c[-200:], out_m[-200:])
            return 1
        dst = os.path.join(SEEDED, sid)
        os.makedirs(dst, exist_ok=True)
        for f in ("patch.diff", "demo.py", "notes.md"):
            if os.path.exists(os.path.join(src, f)):
                shutil.copy(os.path.join(src, f), dst)
        notes = open(os.path.join(src, "notes.md")).read() if os.path.exists(os.path.join(src, "notes.md")) else ""
        meta = {"id": sid, "breaks": prop, "origin": os.environ.get("SEED_ORIGIN", "independent sub-agent given only the property text and a scratch worktree"),
                "needs_to_manifest": notes.strip()[:1200],
                "confirmed": {"applies_to": subprocess.run(["git", "-C", REPO, "rev-parse", "--short", "HEAD"], capture_output=True, text=True).stdout.strip(),
                              "test_suite": tail, "demo_unchanged_rc": rc_clean, "demo_changed_rc": rc_mut,
                              "how": "tools/seeded.py import: scratch copy of /repo/src, patch -p1, pytest src/spake2/test, demo.py with SPAKE2_SRC on both trees"},
                "checks": {}}
        json.dump(meta, open(os.path.join(dst, "meta.json"), "w"), indent=1)
        return 0
    finally:
        shutil.rmtree(clean, ignore_errors=True)
        shutil.rmtree(mut, ignore_errors=True)


def do_run(ids, props=None, tier="quick", runs=None):
    ids = ids or sorted(os.listdir(SEEDED))
    bad = 0
    for sid in ids:
        dst = os.path.join(SEEDED, sid)
        mp = os.path.join(dst, "meta.json")
        if not os.path.exists(mp):
            continue
        meta = json.load(open(mp))
        d = scratch(os.path.join(dst, "patch.diff"))
        try:
            for pid in (props or meta.get("expected_checks") or [meta["breaks"]]):
                env = dict(os.environ, VERIF_REPO=d, VERIF_NO_EVIDENCE="1")
                cmd = [os.path.join(ROOT, "check"), pid, "--tier", tier] + (["--runs", str(runs)] if runs else [])
                t = time.time()
                r = subprocess.run(cmd, cwd=ROOT, env=env, capture_output=True, text=True, timeout=7200)
                clause = [l.strip() for l in r.stdout.splitlines() if l.strip().startswith("clause=")]
                verdict = {0: "MISSED", 1: "caught", 2: "HARNESS-ERROR"}.get(r.returncode, "?")
                print("%-14s %s %-13s %4.0fs %s" % (sid, pid, verdict, time.time() - t, clause[0][:120] if clause else ""))
                if r.returncode == 2:
                    print(r.stdout[-500:])
                sys.stdout.flush()
                meta.setdefault("checks", {})[pid + ":" + tier] = {"verdict": verdict, "clause": clause[0][:200] if clause else None}
                if verdict != "caught":
                    bad += 1
            json.dump(meta, open(mp, "w"), indent=1)
        finally:
            shutil.rmtree(d, ignore_errors=True)
    return 1 if bad else 0


if __name__ == "__main__":
    a = sys.argv[1:]
    if a and a[0] == "import":
        sys.exit(do_import(a[1], a[2], a[3]))
    props = None
    tier = "quick"
    runs = None
    ids = []
    i = 1
    while i < len(a):
        if a[i] == "--props":
            props = a[i + 1].split(","); i += 2
        elif a[i] == "--tier":
            tier = a[i + 1]; i += 2
        elif a[i] == "--runs":
            runs = int(a[i + 1]); i += 2
        else:
            ids.append(a[i]); i += 1
    sys.exit(do_run(ids, props, tier, runs))
