#!/venv/bin/python
"""Regenerates /verif/MANIFEST.json from the tables below (single source of truth)."""
import json, os, sys
ROOT = os.path.dirname(os.path.dirname(os.path.abspath(__file__)))

TECH = "deterministic simulation with fault injection: seeded search over schedules / fault sequences"

CLAIMED = {
 "C01": ("exploration", "4 C01",
   "Seeded deterministic simulation of two real nodes under an honest (delay/reorder/duplicate) network with "
   "0-6 crash/recover cycles per node placed anywhere between start() and finish(), swarm over all shipped sets, "
   "custom seeds, generated IntegerGroups and the library's Edwards code on toy curves, with edge entropy streams "
   "(scalars 0, 1, q-1, forced re-draws). Oracle needs no model: equal 32-byte keys or one of the two degenerate "
   "coincidences decided from the bytes on the wire. Sampling, not proof.",
   "Trusts the simulator's causality bookkeeping and the byte-level identity test for the two exemptions."),
}

NOT_YET = {k: "check under construction in this session (planned per DESIGN.md section 4); not claimed until it runs clean" for k in ["C02","C03","C05","C06","C07","C08","C09","C10","C11","C16"] if k not in CLAIMED}

NA = {
 "C04": "pure counting/algebraic fact about x -> x*G + w*M for fixed password; no schedule, fault, crash point or history can influence it, so a simulator would only be an input generator (DESIGN.md section 6)",
 "C12": "polynomial identities of the Edwards addition/doubling formulas over GF(2^255-19); exceptional inputs have measure zero and nothing in it depends on order, time or faults (DESIGN.md section 6)",
 "C13": "group axioms of immutable values through the element API; pure algebra, the protocol never reaches the listed API-level defects, nothing for a scheduler or fault injector to act on (DESIGN.md section 6)",
 "C14": "deterministic pure functions of one byte string (password -> scalar, seed -> element); no nondeterminism or fault surface (DESIGN.md section 6)",
 "C15": "fixed-width codec bijections are pure functions of their argument; only input enumeration applies, which is not simulation (DESIGN.md section 6)",
 "C17": "the two transcript hashes are pure functions of byte strings; their in-flight consequences (boundary-shifted identities, variable-length messages) are exercised inside C02's fault space but C17 itself is not claimed (DESIGN.md section 6)",
 "C18": "static number theory about shipped literals (primality, orders, distinctness); nothing executes (DESIGN.md section 6)",
}

def main():
    checks = []
    for pid in sorted(CLAIMED):
        cat, ref, text, note = CLAIMED[pid]
        checks.append({
            "property_id": pid,
            "quick_cmd": "timeout 900 ./check %s --tier quick" % pid,
            "thorough_cmd": "timeout 3000 ./check %s --tier thorough" % pid,
            "evidence_file": "/verif/evidence/%s.json" % pid,
            "replay_cmd_template": "./check %s --replay {path}" % pid,
            "engine": "simspake",
            "level_claimed": {"category": cat, "text": text, "design_ref": "DESIGN.md section " + ref},
            "level_note": note,
            "technique": TECH,
        })
    na = [{"property_id": k, "reason": v} for k, v in sorted(NA.items())]
    na += [{"property_id": k, "reason": v} for k, v in sorted(NOT_YET.items())]
    m = {
        "version": 1,
        "setup_cmd": "timeout 300 ./check setup",
        "hooks": {
            "guard": "WARNER_PYTHON_SPAKE2_VERIF",
            "enable": "no hook exists: every seam the simulator needs is already a constructor argument (entropy_f, params), a byte string (messages, serialized state) or a duck-typed object; checks import /repo/src directly from the working tree",
            "baseline_off_cmd": "cd /repo && /venv/bin/python -m pytest -ra -q -p no:cacheprovider --timeout=900 --continue-on-collection-errors",
            "source_commits": [],
            "add_only": True,
        },
        "engines": [{"name": "simspake", "path": "/verif/simspake", "serves_properties": sorted(CLAIMED),
                     "kind_free_text": "deterministic discrete-event simulator of a SPAKE2 deployment (real library nodes, simulated entropy/network/storage/process-lifetime/thread schedule), seeded scenario search, ddmin shrinker, JSON replay files, independent reference model as oracle"}],
        "checks": checks,
        "not_applicable": na,
        "notes": "See DESIGN.md. ./check selftest proves determinism (same seed twice, other PYTHONHASHSEED, 1 vs 16 workers) and sensitivity (mutants under /verif/mutants and /verif/seeded).",
    }
    with open(os.path.join(ROOT, "MANIFEST.json"), "w") as f:
        json.dump(m, f, indent=1)
    print("wrote MANIFEST.json with %d checks, %d not_applicable" % (len(checks), len(na)))

if __name__ == "__main__":
    main()
