#!/venv/bin/python
"""Regenerates /verif/MANIFEST.json from the tables below (single source of truth)."""
import json, os, sys
ROOT = os.path.dirname(os.path.dirname(os.path.abspath(__file__)))

TECH = "deterministic simulation with fault injection: seeded search over schedules / fault sequences"

CLAIMED = {
 "C01": ("exploration", "4 C01",
   "Seeded deterministic simulation of two real nodes under an honest (delay/reorder/duplicate) network with "
   "0-6 crash/recover cycles per node placed anywhere between start() and finish() (in 8% of the runs restarts of the "
   "whole simulated process with a freshly imported copy of the library and a neighbour session of the other flavour), swarm over all shipped sets, "
   "custom seeds, generated IntegerGroups and the library's Edwards code on toy curves, with edge entropy streams "
   "(scalars 0, 1, q-1, forced re-draws; all scalar pairs of tiny groups walked along the run index). Oracle needs no "
   "model: equal 32-byte keys, honest persist/restore never fails, or one of the two degenerate coincidences decided "
   "from the bytes on the wire. Runs of a chunk share one forked process; a violation that needs an earlier session's "
   "leftovers is replayed with that session as prelude. Sampling, not proof.",
   "Trusts the simulator's causality bookkeeping and the byte-level identity test for the two exemptions."),
 "C02": ("exploration", "4 C02",
   "Same simulated deployment with 1-3 configuration differences (password, identities incl. swaps and boundary "
   "shifts, near-miss strings such as transcoded / NUL-extended / separator-joined identities, parameter set incl. empty "
   "and near-miss seeds) and/or symbolic in-flight faults on one or both messages (18 fault kinds incl. coordinated "
   "two-sided strategies, crash/restore in between). Oracle: no pair of finish() calls may return equal keys unless "
   "both ends had identical views. Found the Ed25519 decoding defect (now fixed in /repo) on the pinned tree.",
   "Exemptions (twin symmetric sessions receiving identical bytes; parameter differences that vanish for zero "
   "scalars) are decided by the reference model; parameter differences are generated only in groups where accidental "
   "coincidence is negligible."),
 "C03": ("exploration", "4 C03",
   "Every real node of every simulated run (fresh or restored any number of times, honest or substituted well-formed "
   "inbound elements, real or independent-implementation peer) is shadowed step by step by an independent executable "
   "specification: start() bytes and finish() key / ReflectionThwarted must equal the model's for the scalar the node "
   "itself reports.", "The reference model is the definition; it is anchored at every check start to the library's "
   "published vectors and to frozen constants of the four shipped sets."),
 "C05": ("exploration", "4 C05",
   "A simulated adversary delivers malformed element encodings (14 symbolic classes, random strings of every length, "
   "dense windows over all (y,sign) of toy curves and all strings of 1-2 byte toy fields stratified on the run index, "
   "elements of other groups, strings offered twice in a row) to fresh and restored victims through "
   "finish() and to bytes_to_element(); oracle = the model's strict decoder (only-if direction) and re-encoding "
   "equality. Found four classes of wrongly accepted Ed25519 strings on the pinned tree (fixed in /repo).",
   "Model strict decoder trusted; toy-curve runs execute the library's own Edwards source on replaced constants."),
 "C06": ("exploration", "4 C06",
   "1-3 victims (A/B/S, fresh or restored, every group kind) receive mis-labelled messages (own side, other flavour, "
   "all 256 side-byte values stratified over the run index, missing label, empty message) and reflections of their own "
   "element under the acceptable label, also in re-encoded/extended form; oracle from the statement (no key; OffSides "
   "for A/B-labelled mismatches; ReflectionThwarted for the own element).", "Equality of the reflected element is "
   "decided with the model's strict decoder."),
 "C07": ("exploration", "4 C07",
   "Seeded call histories of length <= 10 over 10 call symbols (incl. start with failing entropy, six kinds of "
   "finish, serialize, restore-and-continue) on one instance chain - run indices 0..3329 walk all histories of length "
   "<= 3 for the three classes - checked call by call against a specification "
   "automaton that demands exactly what the statement fixes and is permissive where it is silent; distinct histories "
   "of length <= 4 reached are counted.", "Sampling of histories, not the exhaustive enumeration the quantifier speaks of."),
 "C08": ("exploration", "4 C08",
   "Three twins with identical arguments and entropy stream - one with 0-6 persist/crash/recover cycles at generated "
   "points (12% as restarts of the whole simulated process next to a neighbour session of the other class family), one "
   "serialized but never restored, one untouched - receive the same inbound bytes (valid, reflection of "
   "the original message, wrong side, malformed, identity): same key or same exception class; serialize() draws no "
   "entropy (seam and os.urandom tripwire), never raises, is repeatable, printable-ASCII JSON, JSON-equal along the "
   "chain; an honest restore is never refused.",
   "Exception kind compared by class name."),
 "C09": ("exploration", "4 C09",
   "State persisted under (role, parameters) is recovered under every other role and under parameter sets differing "
   "in one named way (other shipped set, other / exchanged / boundary-shifted M,N,S seeds, other generator, other "
   "modulus, other custom group; parameter-set objects optionally built and freed per session); "
   "oracle: raises with the named class, or - when nothing the role uses differs - returns an instance that derives "
   "the twin's key and refuses the original message reflected. One open known finding (generator not fingerprinted).",
   "Differences are judged on group constants and element bytes from the model, not on seeds; modulus/group "
   "differences only in groups where fingerprint coincidences are negligible."),
 "C10": ("exploration", "4 C10",
   "Rolling upgrade/downgrade in the simulated deployment: sessions started by the reference implementation and "
   "persisted by an independent encoder of the released format (random key order / whitespace) are resumed by the "
   "real from_serialized() and must finish to the predicted key; rows written by the real code are parsed by a strict "
   "decoder of the released format and resumed by the model; 12 frozen rows of the pinned tree finish to frozen keys.",
   "The model encoder/decoder is the released format; validated against the frozen rows at every start."),
 "C11": ("exploration", "4 C11",
   "Entropy accounting over simulated histories (only start() draws, only from the seam; tripwire on os.urandom / "
   "random._urandom), range and provenance of the scalar under adversarial streams (boundary values, forced "
   "re-draws, stuck RNG, refused second start(), at most 4096 draws), and a seam sweep: ALL first-round answers of the "
   "entropy seam (all second-round answers under sampled rejected prefixes; all answers after 2..300 rejected ones) for "
   "seeded and index-stratified ranges of width <= 65535, for random_scalar and for start() on small groups, counting "
   "answers per returned value (equal, non-zero, acceptance >= 1/2).",
   "The sweep is a bounded enumeration inside a run over one seam; ranges are sampled, not all widths <= 2^16."),
 "C16": ("exploration", "4 C16",
   "Worlds of 2-8 concurrent sessions (mixed roles, parameter sets incl. several custom sets over one shared group "
   "object) run under two schedules - cooperative interleavings of API calls, or one real thread per session under a "
   "baton scheduler with PRNG-chosen pre-emption at line events or at (source line, k-th hit) sites in library frames, "
   "library locks replaced by cooperative ones - in a forked child of a pristine "
   "process; every session is re-run alone in its own freshly forked pristine child; messages, keys, blobs must be "
   "identical and shared group/parameter objects unchanged.",
   "Pre-emption granularity is one Python line inside spake2 frames."),
}

NOT_YET = {k: "check under construction in this session (planned per DESIGN.md section 4); not claimed until it runs clean" for k in ["C02","C03","C05","C06","C07","C08","C09","C10","C11","C16"] if k not in CLAIMED}

NA = {
 "C04": "pure counting/algebraic fact about x -> x*G + w*M for fixed password; no schedule, fault, crash point or history can influence it, so a simulator would only be an input generator (DESIGN.md section 6)",
 "C12": "polynomial identities of the Edwards addition/doubling formulas over GF(2^255-19); exceptional inputs have measure zero and nothing in it depends on order, time or faults (DESIGN.md section 6)",
 "C13": "group axioms of immutable values through the element API; pure algebra, the protocol never reaches the listed API-level defects, nothing for a scheduler or fault injector to act on (DESIGN.md section 6)",
 "C14": "deterministic pure functions of one byte string (password -> scalar, seed -> element); no nondeterminism or fault surface (DESIGN.md section 6)",
 "C15": "fixed-width codec bijections are pure functions of their argument; only input enumeration applies, which is not simulation (DESIGN.md section 6)",
 "C17": "the two transcript hashes are pure functions of byte strings; their in-flight consequences (boundary-shifted identities, variable-length messages) are exercised inside C02's fault space but C17 itself is not claimed (DESIGN.md section 6)",
 "C18": "static number theory about shipped literals (primality, orders, distinctness); nothing executes (DESIGN.md section 6)",
}

# claim texts as extended in round 9 (aborted calls, nested calls, address reservation, ...)
TEXT_OVERRIDE = json.loads('{"C01": "Seeded deterministic simulation of two real nodes under an honest (delay/reorder/duplicate) network with 0-6 crash/recover cycles per node placed anywhere between start() and finish() (in 8% of the runs restarts of the whole simulated process with a freshly imported copy of the library and a neighbour session of the other flavour), swarm over all shipped sets, custom seeds, generated IntegerGroups and the library\'s Edwards code on toy curves, with edge entropy streams (scalars 0, 1, q-1, forced re-draws; all scalar pairs of tiny groups walked along the run index). Oracle needs no model: equal 32-byte keys, honest persist/restore never fails, or one of the two degenerate coincidences decided from the bytes on the wire. Runs of a chunk share one forked process; a violation that needs an earlier session\'s leftovers is replayed with that session as prelude. Sampling, not proof. 15% of the runs carry a second concurrent honest pair in the same process (judged pair by pair); in 12% library calls are aborted at an arbitrary library line (injected MemoryError/KeyboardInterrupt) and the application falls back on its durable state.", "C02": "Same simulated deployment with 1-3 configuration differences (password, identities incl. swaps and boundary shifts, near-miss strings such as transcoded / NUL-extended / separator-joined identities, parameter set incl. empty and near-miss seeds) and/or symbolic in-flight faults on one or both messages (18 fault kinds incl. coordinated two-sided strategies, crash/restore in between). Oracle: no pair of finish() calls may return equal keys unless both ends had identical views. Found the Ed25519 decoding defect (now fixed in /repo) on the pinned tree. Framing tails (LF, CRLF, NUL, \'=\') are part of the extension faults; parameter-seed differences are also run in a multi-tenant process with per-session parameter sets where an earlier tenant\'s set died before the mismatching end was built (address reservation).", "C03": "Every real node of every simulated run (fresh or restored any number of times, honest or substituted well-formed inbound elements, real or independent-implementation peer) is shadowed step by step by an independent executable specification: start() bytes and finish() key / ReflectionThwarted must equal the model\'s for the scalar the node itself reports.", "C05": "A simulated adversary delivers malformed element encodings (14 symbolic classes, random strings of every length, dense windows over all (y,sign) of toy curves and all strings of 1-2 byte toy fields stratified on the run index, elements of other groups, strings offered twice in a row) to fresh and restored victims through finish() and to bytes_to_element(); oracle = the model\'s strict decoder (only-if direction) and re-encoding equality. Found four classes of wrongly accepted Ed25519 strings on the pinned tree (fixed in /repo). Extension faults include framing tails (LF, CRLF, NUL, \'=\').", "C06": "1-3 victims (A/B/S, fresh or restored, every group kind) receive mis-labelled messages (own side, other flavour, all 256 side-byte values stratified over the run index, missing label, empty message) and reflections of their own element under the acceptable label, also in re-encoded/extended form; oracle from the statement (no key; OffSides for A/B-labelled mismatches; ReflectionThwarted for the own element). Reflection variants include the own element as a minimal-length integer (leading zero octets stripped) and with framing tails.", "C07": "Seeded call histories of length <= 10 over 10 call symbols (incl. start with failing entropy, six kinds of finish, serialize, restore-and-continue) on one instance chain - run indices 0..3329 walk all histories of length <= 3 for the three classes - checked call by call against a specification automaton that demands exactly what the statement fixes and is permissive where it is silent; distinct histories of length <= 4 reached are counted. Random histories also contain a nested start() (the entropy function re-enters start() on the same instance) and calls aborted at an arbitrary library line by an injected exception.", "C08": "Three twins with identical arguments and entropy stream - one with 0-6 persist/crash/recover cycles at generated points (12% as restarts of the whole simulated process next to a neighbour session of the other class family), one serialized but never restored, one untouched - receive the same inbound bytes (valid, reflection of the original message, wrong side, malformed, identity): same key or same exception class; serialize() draws no entropy (seam and os.urandom tripwire), never raises, is repeatable, printable-ASCII JSON, JSON-equal along the chain; an honest restore is never refused. In 15% of the runs serialize()/from_serialized()/finish() calls are aborted at an arbitrary library line by an injected MemoryError/KeyboardInterrupt: an aborted serialize() must leave the instance as it was, aborted restores are repeated, an aborted finish() is followed by restore-and-retry.", "C09": "State persisted under (role, parameters) is recovered under every other role and under parameter sets differing in one named way (other shipped set, other / exchanged / boundary-shifted M,N,S seeds, other generator, other modulus, other custom group; parameter-set objects optionally built and freed per session); oracle: raises with the named class, or - when nothing the role uses differs - returns an instance that derives the twin\'s key and refuses the original message reflected. One open known finding (generator not fingerprinted).", "C10": "Rolling upgrade/downgrade in the simulated deployment: sessions started by the reference implementation and persisted by an independent encoder of the released format (random key order / whitespace) are resumed by the real from_serialized() and must finish to the predicted key; rows written by the real code are parsed by a strict decoder of the released format and resumed by the model; 12 frozen rows of the pinned tree finish to frozen keys. 10% of the runs build parameter sets per session (address reuse simulated deterministically), 6% run every simulated process under python -O.", "C11": "Entropy accounting over simulated histories (only start() draws, only from the seam; tripwire on os.urandom / random._urandom), range and provenance of the scalar under adversarial streams (boundary values, forced re-draws, stuck RNG, refused second start(), at most 4096 draws), and a seam sweep: ALL first-round answers of the entropy seam (all second-round answers under sampled rejected prefixes; all answers after 2..300 rejected ones) for seeded and index-stratified ranges of width <= 65535, for random_scalar and for start() on small groups, counting answers per returned value (equal, non-zero, acceptance >= 1/2). Seam sweeps are also run re-entrantly: another draw over another range runs to completion inside the first entropy read.", "C16": "Worlds of 2-8 concurrent sessions (mixed roles, parameter sets incl. several custom sets over one shared group object) run under two schedules - cooperative interleavings of API calls, or one real thread per session under a baton scheduler with PRNG-chosen pre-emption at line events or at (source line, k-th hit) sites in library frames, library locks replaced by cooperative ones - in a forked child of a pristine process; every session is re-run alone in its own freshly forked pristine child; messages, keys, blobs must be identical and shared group/parameter objects unchanged. Cooperative worlds also nest other sessions\' calls inside a session\'s entropy read, abort calls of neighbour sessions at an arbitrary library line (injected exception), and give every session a private parameter-set object whose address is reused after its death."}')


def main():
    checks = []
    for pid in sorted(CLAIMED):
        cat, ref, text, note = CLAIMED[pid]
        text = TEXT_OVERRIDE.get(pid, text)
        checks.append({
            "property_id": pid,
            "quick_cmd": "timeout 900 ./check %s --tier quick" % pid,
            "thorough_cmd": "timeout 3000 ./check %s --tier thorough" % pid,
            "evidence_file": "/verif/evidence/%s.json" % pid,
            "replay_cmd_template": "./check %s --replay {path}" % pid,
            "engine": "simspake",
            "level_claimed": {"category": cat, "text": text, "design_ref": "DESIGN.md section " + ref},
            "level_note": note,
            "technique": TECH,
        })
    na = [{"property_id": k, "reason": v} for k, v in sorted(NA.items())]
    na += [{"property_id": k, "reason": v} for k, v in sorted(NOT_YET.items())]
    m = {
        "version": 1,
        "setup_cmd": "timeout 300 ./check setup",
        "hooks": {
            "guard": "WARNER_PYTHON_SPAKE2_VERIF",
            "enable": "no hook exists: every seam the simulator needs is already a constructor argument (entropy_f, params), a byte string (messages, serialized state) or a duck-typed object; checks import /repo/src directly from the working tree",
            "baseline_off_cmd": "cd /repo && /venv/bin/python -m pytest -ra -q -p no:cacheprovider --timeout=900 --continue-on-collection-errors",
            "source_commits": [],
            "add_only": True,
        },
        "engines": [{"name": "simspake", "path": "/verif/simspake", "serves_properties": sorted(CLAIMED),
                     "kind_free_text": "deterministic discrete-event simulator of a SPAKE2 deployment (real library nodes, simulated entropy/network/storage/process-lifetime/thread schedule), seeded scenario search, ddmin shrinker, JSON replay files, independent reference model as oracle"}],
        "checks": checks,
        "not_applicable": na,
        "notes": "See DESIGN.md. ./check selftest proves determinism (same seed twice, other PYTHONHASHSEED, 1 vs 16 workers) and sensitivity (mutants under /verif/mutants and /verif/seeded).",
    }
    with open(os.path.join(ROOT, "MANIFEST.json"), "w") as f:
        json.dump(m, f, indent=1)
    print("wrote MANIFEST.json with %d checks, %d not_applicable" % (len(checks), len(na)))

if __name__ == "__main__":
    main()
