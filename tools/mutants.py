#!/venv/bin/python
"""tools/mutants.py verify            - every mutant applies and passes the repo's 43 tests
   tools/mutants.py run [name ...]    - run the relevant quick checks against each mutant
Scratch copies live under a mkdtemp directory outside /repo and /verif and are removed."""
import json, os, shutil, subprocess, sys, tempfile, time
ROOT = os.path.dirname(os.path.dirname(os.path.abspath(__file__)))
sys.path.insert(0, os.path.join(ROOT, "tools"))
from mutants_def import MUTANTS, EQUIVALENT

REPO = os.environ.get("VERIF_BASE_REPO", "/repo")


def make_copy(m):
    d = tempfile.mkdtemp(prefix="spake2-mut-")
    shutil.copytree(os.path.join(REPO, "src"), os.path.join(d, "src"), ignore=shutil.ignore_patterns("__pycache__", "*.egg-info"))
    for f in ("setup.cfg", "setup.py", "versioneer.py"):
        if os.path.exists(os.path.join(REPO, f)):
            shutil.copy(os.path.join(REPO, f), d)
    for (path, old, new) in m["edits"]:
        p = os.path.join(d, path)
        s = open(p).read()
        if old == "__REPLACE_ALL__":
            a, b = new
            assert a in s, (m["name"], a)
            s = s.replace(a, b)
        else:
            assert s.count(old) == 1, (m["name"], path, s.count(old))
            s = s.replace(old, new)
        open(p, "w").write(s)
    return d


def run_tests(d):
    env = dict(os.environ, PYTHONPATH=os.path.join(d, "src"), PYTHONDONTWRITEBYTECODE="1")
    r = subprocess.run(["/venv/bin/python", "-m", "pytest", "-q", "-p", "no:cacheprovider", "-x", "src/spake2/test"],
                       cwd=d, env=env, capture_output=True, text=True, timeout=600)
    tail = r.stdout.strip().splitlines()[-1] if r.stdout.strip() else r.stderr[-200:]
    return r.returncode == 0, tail


def run_check(d, pid, runs=None):
    env = dict(os.environ, VERIF_REPO=d, VERIF_NO_EVIDENCE="1")
    cmd = [os.path.join(ROOT, "check"), pid, "--tier", "quick"]
    if runs:
        cmd += ["--runs", str(runs)]
    t = time.time()
    r = subprocess.run(cmd, cwd=ROOT, env=env, capture_output=True, text=True, timeout=1800)
    return r.returncode, r.stdout, time.time() - t


def main(argv):
    mode = argv[0] if argv else "verify"
    names = argv[1:]
    allm = [dict(m, kind="mutant") for m in MUTANTS] + [dict(m, kind="equiv", props=m.get("props")) for m in EQUIVALENT]
    if names:
        allm = [m for m in allm if m["name"] in names]
    results = {}
    for m in allm:
        d = make_copy(m)
        try:
            if mode == "verify":
                ok, tail = run_tests(d)
                print("%-50s tests %s  (%s)" % (m["name"], "PASS" if ok else "FAIL", tail))
                results[m["name"]] = ok
            else:
                props = m["props"] or ["C01", "C02", "C03", "C05", "C06", "C07", "C08", "C09", "C10", "C11", "C16"]
                only = os.environ.get("MUT_ONLY_PROPS")
                if only:
                    props = [x for x in props if x in only.split(",")]
                for pid in props:
                    rc, out, dt = run_check(d, pid)
                    viol = [l for l in out.splitlines() if l.startswith("VIOLATION")]
                    clause = [l.strip() for l in out.splitlines() if l.strip().startswith("clause=")]
                    want = 1 if m["kind"] == "mutant" else 0
                    verdict = "ok" if rc == want else "MISSED" if m["kind"] == "mutant" else "FALSE-ALARM"
                    if rc == 2:
                        verdict = "HARNESS-ERROR"
                    print("%-50s %s rc=%d %-13s %.0fs %s" % (m["name"], pid, rc, verdict, dt, (clause[0][:110] if clause else "")))
                    if rc == 2:
                        print(out[-600:])
                    results[m["name"] + ":" + pid] = verdict
                    sys.stdout.flush()
        finally:
            shutil.rmtree(d, ignore_errors=True)
    bad = [k for k, v in results.items() if v not in (True, "ok")]
    print("summary: %d entries, %d not as expected: %s" % (len(results), len(bad), bad))
    return 1 if bad else 0

if __name__ == "__main__":
    sys.exit(main(sys.argv[1:]))
